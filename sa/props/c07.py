"""C07 - reduction reaches the documented normal form in every context."""

from __future__ import annotations

import ast

from ..classes import CORE, RULES, ClassInfo
from ..loader import AnalysisError, World, enclosing, module_of
from ..mutate import edit_def, remove_stmt, replace_expr, replace_stmt
from ..paths import Path, function_paths
from ..rulesem import LEFT, RIGHT, classes_of_term, method_paths, rule_info
from ..run import Control
from ..terms import facts as path_facts
from ..terms import path_env, show, term

LEVEL = 'other'
RULE_TEXT = (
    'documented patterns x registered rules (class-guard acceptance and a non-NoReduction path), every path of one iteration of the '
    'scan loop with the cursor symbolic, the scalar-placement returns, and may-return-class inference over every rule; an obligation is '
    'one (pattern | loop path | clause) item; non-trivial = discharged by class-table reasoning or symbolic cursor arithmetic'
)
EXPLANATION = (
    'Static decision of the normal-form machinery: (N1) each documented pattern is accepted by the class guards of a registered rule '
    'and has a rewriting path; (N2) on every path of one iteration of the scan the cursor steps back (or restarts) after a rewrite and '
    'advances by one otherwise, a rewrite leaves the rule loop, and the scan only ends at the end of the chain - the three transfer '
    'conditions of the invariant "no reducible pair left of the cursor"; (N3) scalar placement on the smaller side; (N4) every class '
    'normalised before the scan (identity, scalar) that a rule may produce is re-normalised on the rewrite path. Whether each rule '
    'fires for every parameterisation of its pattern (e.g. aliasing axes) is value-level and not decided.'
)


def patterns(table):
    g = table.by_name
    R, RT, H, P = g('QURotationOperator'), g('QURotationTransposeOperator'), g('HWPOperator'), g('LinearPolarizerOperator')
    row, diag, col = g('BlockRowOperator'), g('BlockDiagonalOperator'), g('BlockColumnOperator')
    idx, T, pack, mv = g('IndexOperator'), g('TransposeOperator'), g('PackOperator'), g('MoveAxisOperator')
    ravel, reshape, rt = g('RavelOperator'), g('ReshapeOperator'), g('ReshapeTransposeOperator')
    inv = g('InverseOperator')
    plain = g('DenseBlockDiagonalOperator')
    pats = [(inv, plain, 'A.I @ A'), (plain, inv, 'A @ A.I'), (RT, R, 'R.T @ R as lazy inverse')]
    pats += [(a, b, f'{a.name} @ {b.name}') for a in (R, RT) for b in (R, RT)]
    pats += [(a, H, f'{a.name} @ HWP') for a in (R, RT)]
    pats += [(P, H, 'polariser @ HWP')]
    pats += [(row, diag, 'row @ diagonal'), (diag, col, 'diagonal @ column'), (diag, diag, 'diagonal @ diagonal'), (row, col, 'row @ column')]
    pats += [(idx, T, 'P @ P.T'), (T, idx, 'P.T @ P'), (pack, T, 'pack @ pack.T'), (mv, mv, 'moveaxis @ moveaxis')]
    pats += [(a, rt, f'{a.name} @ reshape transpose') for a in (ravel, reshape)]
    pats += [(rt, a, f'reshape transpose @ {a.name}') for a in (ravel, reshape)]
    return pats


def _accepts(table, info, L: ClassInfo, Rc: ClassInfo) -> bool:
    if info.style == 'either':
        return any(table.is_subclass(L, k) or table.is_subclass(Rc, k) for k in info.either)
    okl = info.left is None or any(table.is_subclass(L, k) for k in info.left)
    okr = info.right is None or any(table.is_subclass(Rc, k) for k in info.right)
    return okl and okr


def _operator_field_class(table, cls: ClassInfo):
    """Declared class of ``cls.operator`` when it is more specific than the operator base."""
    from ..loader import dotted

    for f in table.fields(cls):
        if f.name == 'operator':
            for n in ast.walk(f.annotation):
                d = dotted(n) if isinstance(n, (ast.Name, ast.Attribute)) else None
                if d:
                    q = table.world.qualify(f.owner.module, d)
                    c = table.find(q) if q else None
                    if c is not None and c.name != 'AbstractLinearOperator':
                        yield c


def _has_rewrite_path(world, table, rule, L, Rc) -> bool:
    from ..rulesem import combined_paths

    for fs, path, env, fn in combined_paths(world, table, rule):
        if path.exit != 'return':
            continue
        feasible = True
        for f in fs:
            if f[0] == 'isinstance' and f[1] in (LEFT, RIGHT):
                ks = classes_of_term(world, table, module_of(fn), f[2])
                if ks is None:
                    continue
                cls = L if f[1] == LEFT else Rc
                truth = any(table.is_subclass(cls, k) for k in ks)
                if truth != f[3]:
                    feasible = False
            if f[0] == 'is':
                for wrapper, other, wc, oc in ((LEFT, RIGHT, L, Rc), (RIGHT, LEFT, Rc, L)):
                    if f[1] == frozenset({('attr', wrapper, 'operator'), other}):
                        declared = list(_operator_field_class(table, wc))
                        if not any(fld.name == 'operator' for fld in table.fields(wc)):
                            feasible = False  # the wrapper class has no operand: X.operator cannot be Y
                        elif declared and not any(table.is_subclass(oc, d) or table.is_subclass(d, oc) for d in declared):
                            feasible = False
        if feasible:
            return True
    return False


def _ancestors(node, stop):
    cur = getattr(node, '_parent', None)
    while cur is not None and cur is not stop:
        yield cur
        cur = getattr(cur, '_parent', None)


def import_order(world) -> dict[str, int]:
    """Rank of every module in the order in which a first import of the package finishes executing them."""
    order: list[str] = []
    seen: set[str] = set()

    def deps(name: str) -> list[str]:
        out = []
        for v in world.modules[name].imports.values():
            parts = v.split('.')
            for cut in range(1, len(parts) + 1):
                m = '.'.join(parts[:cut])
                if m in world.modules and m != name and m not in out:
                    out.append(m)
        return out

    def visit(name: str) -> None:
        if name in seen:
            return
        seen.add(name)
        for d in deps(name):
            visit(d)
        order.append(name)

    for root in sorted(world.modules, key=lambda m: (m.count('.'), m)):
        visit(root)
    return {m: i for i, m in enumerate(order)}


def _scan_order(ctx, ck, fn, loop, rules, infos, pats) -> None:
    """N7: the binary rules are tried in registration order - in particular the identity-based rule for an operator next to
    its own lazy inverse (registered first) wins over the class-based rules that accept the same pair.  The registry is
    built and traversed by an abstract interpretation of RuleRegistry (register / __iter__ / whatever the scan iterates)."""
    from ..axinterp import Env, Interp, Obj, Raised, Undecided

    world, table = ctx.world, ctx.table
    from .c04 import _self_closure

    alg = table.get(f'{RULES}.AlgebraicReductionRule')
    scopes = [loop] + list(_self_closure(table, alg, fn).values())
    fors = [n for scope in scopes for n in ast.walk(scope) if isinstance(n, ast.For) and isinstance(n.target, ast.Name)
            and any(isinstance(c, ast.Call) and isinstance(c.func, ast.Attribute) and isinstance(c.func.value, ast.Name) and c.func.value.id == n.target.id and c.func.attr in ('check', 'apply')
                    for c in ast.walk(n))]
    if len(fors) != 1:
        ck.incomplete('N7', loop, f'expected one loop over the registered rules inside the scan, found {len(fors)}', instance='rule order')
        return
    it_expr = fors[0].iter
    rank = import_order(world)
    binary = [r for r in rules if table.is_subclass(r, f'{RULES}.AbstractBinaryRule') and not r.name.startswith('Abstract')]
    binary.sort(key=lambda r: (rank.get(r.module.name, 10**6), r.node.lineno))
    reg_cls = table.find(f'{RULES}.RuleRegistry')
    if reg_cls is None:
        raise AnalysisError('anchor vanished: RuleRegistry')
    module = module_of(fn)
    reg_names = [n for n, d in module.defs.items() if isinstance(d, (ast.Assign, ast.AnnAssign)) and d.value is not None and 'Registry' in ast.unparse(d.value)]
    reg_cls = _registry_class(table, module) or reg_cls
    it = Interp(world, table, budget=400_000)
    try:
        registry = it.construct(reg_cls)
        objs = {r.qual: Obj(r, {}) for r in binary}
        for r in binary:
            it.call_method(registry, 'register', objs[r.qual])
    except (Undecided, Raised) as e:
        ck.incomplete('N7', reg_cls.node, f'the registration of the rules could not be followed: {e}', instance='rule order')
        return
    checked = 0
    for L, Rc, text in pats:
        accepting = [r for r in binary if _accepts(table, infos[r.qual], L, Rc) and _has_rewrite_path(world, table, r, L, Rc)]
        if not accepting:
            continue
        env = Env(module)
        for n in reg_names:
            it.globals_override[(module.name, n)] = registry
        scope_fn = enclosing(fors[0], (ast.FunctionDef,)) or fn
        if scope_fn.args.args:
            try:
                env.vars[scope_fn.args.args[0].arg] = it.construct(alg)
            except (Undecided, Raised):
                pass
        env.vars['left'] = Obj(L, {})
        env.vars['right'] = Obj(Rc, {})
        try:
            tried = [o.cls for o in it.iterate(it.eval(it_expr, env)) if isinstance(o, Obj)]
        except (Undecided, Raised) as e:
            ck.incomplete('N7', fors[0], f'the order in which the rules are tried for {text} could not be followed: {e}', instance=f'order for {text}')
            continue
        first = next((r for r in tried if r in accepting), None)
        checked += 1
        ck.expect('N7', first is accepting[0], fors[0],
                  f'{text}: the first rule tried that accepts the pair is {accepting[0].name}' + (f' (before {", ".join(r.name for r in accepting[1:])})' if len(accepting) > 1 else ''),
                  f'{text}: the scan tries {first.name if first else "no accepting rule"} before {accepting[0].name}, which is registered first: the pair is rewritten by the wrong rule '
                  '(an operator next to its own lazy inverse becomes a zero rotation instead of disappearing)' if first is not None else f'{text}: {accepting[0].name} is never tried by the scan',
                  instance=f'order for {text}', nontrivial=len(accepting) > 1)
    ck.floor('N7', checked, 20, 'documented patterns whose rule order was followed')


def _normal_form_by_execution(ctx, ck, rules, map_only: bool = False) -> bool:
    """N8: the n-ary part of the normal form, decided by executing the reduction driver abstractly (sa/axinterp.py) on chains of
    opaque operators no binary rule knows, identity operators and scalar operators with symbolic values - every arrangement
    of up to two scalars and one identity among up to three operators, square and rectangular: in what `apply` returns the
    opaque operators are the given ones in order, no identity is left, at most one scalar remains, its value is the product
    of the given ones and it sits on the side with fewer elements.  Returns True when decided."""
    import itertools

    from ..axinterp import AxArr, Env, Func, Interp, Obj, Opaque, Raised, StructLeaf, Sym, Undecided, UNK

    world, table = ctx.world, ctx.table
    alg = table.get(f'{RULES}.AlgebraicReductionRule')
    ident = table.by_name('IdentityOperator')
    homo = table.by_name('HomothetyOperator')
    generic = table.find('furax._base.dense.DenseBlockDiagonalOperator')
    reg_cls = table.find(f'{RULES}.RuleRegistry')
    base = table.get(f'{CORE}.AbstractLinearOperator')
    apr = table.resolve(alg, 'apply')
    if generic is None or reg_cls is None or apr is None:
        return False
    fn = apr.node
    binary = [r for r in rules if table.is_subclass(r, f'{RULES}.AbstractBinaryRule') and not r.name.startswith('Abstract')]
    rank = import_order(world)
    binary.sort(key=lambda r: (rank.get(r.module.name, 10**6), r.node.lineno))
    rules_mod = module_of(fn)
    reg_names = [n for n, d in rules_mod.defs.items() if isinstance(d, (ast.Assign, ast.AnnAssign)) and d.value is not None and 'Registry' in ast.unparse(d.value)]
    reg_cls = _registry_class(table, rules_mod) or reg_cls
    small = StructLeaf(((frozenset({'s'}), 3),))
    big = StructLeaf(((frozenset({'b'}), 7),))
    out_fn = base.own.get('out_structure')

    def struct_pairs(shape_kind):
        # (in, out) of the opaque operators along the chain, left to right, so that the chain composes
        if shape_kind == 'square':
            return lambda n: [(small, small)] * n
        if shape_kind == 'wide':  # the chain maps big -> small: fewer elements on the output (left) side
            return lambda n: [(big, small)] + [(big, big)] * (n - 1)
        return lambda n: [(big, big)] * (n - 1) + [(small, big)]  # tall: small -> big, fewer elements on the input (right) side

    def flatten_product(v):
        if isinstance(v, Sym) and v.op == '*':
            return flatten_product(v.args[0]) + flatten_product(v.args[1])
        if isinstance(v, Opaque):
            return [v.name]
        if v == 1:
            return []
        return [repr(v)]

    from .. import run as _run

    if _run.CONTROL_EXPECT and not _run.CONTROL_EXPECT.endswith('N8'):
        return False
    it = Interp(world, table, budget=200_000)
    it.symbolic = True
    it.constructible = {k.qual for k in table.operators()} | {k.qual for k in table.classes.values() if k.module.name == rules_mod.name or table.is_subclass(k, f'{RULES}.AbstractRule')}
    if isinstance(out_fn, ast.FunctionDef):
        it.summaries[id(out_fn)] = lambda args, kwargs: args[0].attrs.get('__out__', UNK)
    try:
        registry = it.construct(reg_cls)
        for r in binary:
            has_init = any(isinstance(k.own.get('__init__'), ast.FunctionDef) for k in r.mro)
            it.call_method(registry, 'register', it.construct(r) if has_init else Obj(r, {}))
    except (Undecided, Raised):
        return False
    for nm in reg_names:
        it.globals_override[(rules_mod.name, nm)] = registry
    problems: list[str] = []
    nchains = 0
    for shape_kind in ('square', 'wide', 'tall'):
        for n in (1, 2, 3):
            io = struct_pairs(shape_kind)(n)
            for extra in range(0, 3):
                for positions in itertools.combinations(range(n + extra), extra):
                    for extras in itertools.product('HI', repeat=extra):
                        if extras.count('I') > 1:
                            continue
                        it.steps = 0
                        del it.degraded[:]
                        # build the chain left to right
                        chain = []
                        gi = 0
                        scalars = []
                        ex = dict(zip(positions, extras))
                        for pos in range(n + extra):
                            # structure at this point of the chain: the input structure of what stands to the left
                            if pos in ex:
                                st = io[gi][1] if gi < n else io[n - 1][0]
                                if ex[pos] == 'H':
                                    name = f'k{len(scalars)}'
                                    scalars.append(name)
                                    chain.append(Obj(homo, {'value': Opaque(name), '_in_structure': st}))
                                    chain[-1].attrs['__out__'] = st
                                else:
                                    chain.append(Obj(ident, {'_in_structure': st, '__out__': st}))
                            else:
                                i_, o_ = io[gi]
                                chain.append(Obj(generic, {'_in_structure': i_, '__out__': o_, 'name': f'G{gi}'}))
                                gi += 1
                        if len(chain) < 2:
                            continue
                        nchains += 1
                        text = ' @ '.join('k' if o.cls is homo else 'I' if o.cls is ident else o.attrs['name'] for o in chain) + f' ({shape_kind})'
                        given = [o for o in chain if o.cls is generic]
                        try:
                            res = it.call_function(Func(fn, Env(rules_mod), _driver_object(it, alg), apr.found_on), [list(chain)], {})
                        except Raised as exc:
                            problems.append(f'{text}: apply raises {exc.name}')
                            continue
                        except Undecided as exc:
                            ck.incomplete('N8', fn, f'the reduction driver could not be executed abstractly on {text}: {exc}', instance='normal form by execution')
                            return False
                        if it.degraded or not isinstance(res, list) or not all(isinstance(o, Obj) for o in res):
                            ck.incomplete('N8', fn, f'the reduction driver could not be executed abstractly on {text}: {(it.degraded or ["the result is not a list of operators"])[0]}', instance='normal form by execution')
                            return False
                        kept = [o for o in res if o.cls is generic]
                        hs = [o for o in res if o.cls is homo]
                        if [id(o) for o in kept] != [id(o) for o in given]:
                            problems.append(f'{text}: the operators of the chain are not kept in order')
                        if any(o.cls is ident for o in res) and (given or hs):
                            problems.append(f'{text}: an identity factor is left in the result')
                        if len(hs) > 1:
                            problems.append(f'{text}: {len(hs)} scalar factors are left')
                        if scalars and len(hs) == 1:
                            if sorted(flatten_product(hs[0].attrs.get('value'))) != sorted(scalars):
                                problems.append(f'{text}: the remaining scalar is {hs[0].attrs.get("value")!r}, not the product of {scalars}')
                            if given:
                                on_left = res[0] is hs[0]
                                on_right = res[-1] is hs[0]
                                want_left = {'square': True, 'wide': True, 'tall': False}[shape_kind]
                                if not (on_left if want_left else on_right):
                                    problems.append(f'{text}: the scalar is not on the side with fewer elements ({"left" if want_left else "right"})')
                                # wherever it sits, the scalar operator acts on the structure of that end of the chain
                                if on_left or on_right:
                                    want_struct = io[0][1] if on_left else io[n - 1][0]
                                    got_struct = hs[0].attrs.get('_in_structure')
                                    if isinstance(got_struct, AxArr) and got_struct.axes != want_struct.axes:
                                        problems.append(f'{text}: the scalar placed on the {"left" if on_left else "right"} is built on the structure {got_struct!r}, the chain has {want_struct!r} at that end')
                        if scalars and not hs:
                            problems.append(f'{text}: the scalar factors disappeared')
    # chains in which a binary rule fires: an operator next to its own lazy inverse disappears, the neighbours then meet
    # (step back), an empty result becomes the identity on the input structure of the chain
    inv_cls = table.find(f'{CORE}.InverseOperator')
    if inv_cls is not None:
        def gen(name):
            return Obj(generic, {'_in_structure': small, '__out__': small, 'name': name})

        def inv(o):
            return Obj(inv_cls, {'operator': o, '__out__': small, 'name': o.attrs['name'] + '.I'})

        def scal(name):
            h = Obj(homo, {'value': Opaque(name), '_in_structure': small})
            h.attrs['__out__'] = small
            return h

        A, B, G0, G1 = gen('A'), gen('B'), gen('G0'), gen('G1')
        cases = [
            ([inv(A), A], []),
            ([A, inv(A)], []),
            ([G0, inv(A), A, G1], [G0, G1]),
            ([inv(A), inv(B), B, A], []),
            ([G0, inv(A), inv(B), B, A, G1], [G0, G1]),
            ([inv(A), B, A], None),
            ([scal('k0'), inv(A), A], 'scalar-only'),
            ([inv(A), scal('k0'), A], 'scalar-only'),
        ]
        # a chain made of identities only: everything is discarded, the result is the identity on the input structure
        def idn():
            return Obj(ident, {'_in_structure': small, '__out__': small, 'name': 'I'})

        cases += [([idn(), idn()], []), ([idn(), idn(), idn()], [])]
        tr_cls = table.find(f'{CORE}.TransposeOperator')
        if tr_cls is not None:
            def tr(o):
                return Obj(tr_cls, {'operator': o, '__out__': small, 'name': o.attrs['name'] + '.T'})

            # a lazy transpose is not a lazy inverse: only X.I next to X itself cancels, whatever X wraps
            iA, tA = inv(A), tr(A)
            itA, tiA = inv(tA), tr(iA)
            cases += [
                ([tA, A], None),
                ([A, tA], None),
                ([tiA, iA], None),
                ([iA, tiA], None),
                ([itA, tA], []),
                ([tA, itA], []),
                ([itA, A], None),
                ([G0, tiA, iA, G1], None),
            ]
            # a selection next to its own lazy transpose cancels (unique indices); next to the transpose of another
            # selection it does not - whatever pair of these classes was reduced before (the verdict on one pair says
            # nothing about the next one)
            idx_cls = table.by_name('IndexOperator')
            if idx_cls is not None:
                def sel(name):
                    return Obj(idx_cls, {'indices': (slice(None),), 'unique_indices': True, '_in_structure': small, '_out_structure': small, '__out__': small, 'name': name})

                P1, P2 = sel('P1'), sel('P2')
                tP1 = tr(P1)
                cases += [
                    ([P1, tP1], []),
                    ([P2, tP1], None),
                    ([P1, tP1], []),
                    ([G0, P2, tP1, G1], None),
                ]
        # a scalar produced *during* the scan (a one-block row times a one-block column of scalar operators is their product):
        # it must be merged with the scalars already there and moved to an end like any other, and the neighbours re-examined
        row_cls, col_cls = table.find('furax._base.blocks.BlockRowOperator'), table.find('furax._base.blocks.BlockColumnOperator')
        if row_cls is not None and col_cls is not None:
            def one_block(cls_, h, name):
                return Obj(cls_, {'blocks': [h], 'name': name})

            cases += [
                ([G0, one_block(row_cls, scal('k0'), 'Row[k0]'), one_block(col_cls, scal('k1'), 'Col[k1]'), G1], ('scalar-and', ['k0', 'k1'], [G0, G1])),
                ([scal('k2'), G0, one_block(row_cls, scal('k0'), 'Row[k0]'), one_block(col_cls, scal('k1'), 'Col[k1]')], ('scalar-and', ['k0', 'k1', 'k2'], [G0])),
                ([inv(A), one_block(row_cls, scal('k0'), 'Row[k0]'), one_block(col_cls, scal('k1'), 'Col[k1]'), A], ('scalar-and', ['k0', 'k1'], [])),
            ]
        for chain, want in cases:
            it.steps = 0
            del it.degraded[:]
            nchains += 1
            text = ' @ '.join('k' if o.cls is homo else o.attrs['name'] for o in chain)
            try:
                res = it.call_function(Func(fn, Env(rules_mod), _driver_object(it, alg), apr.found_on), [list(chain)], {})
            except Raised as exc:
                problems.append(f'{text}: apply raises {exc.name}')
                continue
            except Undecided as exc:
                ck.incomplete('N8', fn, f'the reduction driver could not be executed abstractly on {text}: {exc}', instance='normal form by execution')
                return False
            if it.degraded or not isinstance(res, list) or not all(isinstance(o, Obj) for o in res):
                ck.incomplete('N8', fn, f'the reduction driver could not be executed abstractly on {text}: {(it.degraded or ["the result is not a list of operators"])[0]}', instance='normal form by execution')
                return False
            if isinstance(want, tuple) and want[0] == 'scalar-and':
                hs_ = [o for o in res if o.cls is homo]
                rest_ = [o for o in res if o.cls is not homo]
                got_k = sorted(x for h in hs_ for x in flatten_product(h.attrs.get('value')))
                if [id(o) for o in rest_] != [id(o) for o in want[2]]:
                    problems.append(f'{text}: expected the operators {[o.attrs["name"] for o in want[2]]} besides the scalar, got {[o.attrs.get("name", o.cls.name) for o in rest_]} (a scalar produced by a rule must be moved out of the way and the neighbours examined again)')
                elif len(hs_) != 1:
                    problems.append(f'{text}: {len(hs_)} scalar factors are left')
                elif got_k != sorted(want[1]):
                    problems.append(f'{text}: the remaining scalar is the product of {got_k}, not of {sorted(want[1])}')
                elif rest_ and res[0] is not hs_[0] and res[-1] is not hs_[0]:
                    problems.append(f'{text}: the scalar produced during the scan is left in the middle of the chain: not on the side with fewer elements')
            elif want is None:
                if [id(o) for o in res] != [id(o) for o in chain]:
                    problems.append(f'{text}: nothing is reducible, yet the chain is changed')
            elif want == 'scalar-only':
                if not (len(res) == 1 and res[0].cls is homo and flatten_product(res[0].attrs.get('value')) == ['k0']):
                    problems.append(f'{text}: the operator next to its lazy inverse (with a scalar in the chain) does not reduce to the scalar alone: {[o.cls.name for o in res]}')
            elif not want:
                if not (len(res) == 1 and res[0].cls is ident and res[0].attrs.get('_in_structure') is small):
                    problems.append(f'{text}: everything cancels, but the result is {[o.cls.name for o in res]} instead of the identity on the input structure')
            elif [id(o) for o in res] != [id(o) for o in want]:
                problems.append(f'{text}: expected {[o.attrs["name"] for o in want]}, got {[o.attrs.get("name", o.cls.name) for o in res]} (an operator next to its own lazy inverse must disappear, and the neighbours that meet must be examined again)')
    if map_only:
        # for "reduce never changes the map" only what changes the product matters, not the normal form
        problems = [p_ for p_ in problems if not any(w in p_ for w in ('an identity factor is left', 'scalar factors are left', 'not on the side with fewer elements', 'does not reduce to the scalar alone'))]
    ck.expect('N8', not problems, fn, f'on all {nchains} chains of up to three opaque operators with up to two scalars and an identity (square, wide, tall) the driver returns the operators in order, '
              'no identity, one scalar = the product, on the side with fewer elements',
              f'{problems[0] if problems else ""} ({len(problems)} of {nchains} chains are not in normal form)', instance='normal form by execution', semantic=True)
    ck.floor('N8', nchains, 100, 'chains executed abstractly')
    return True


def _registry_class(table, rules_mod):
    """The class of the module-level binary-rule registry: the registry class (or a subclass of it) named in the expression the
    registry is built from."""
    base = table.find(f'{RULES}.RuleRegistry')
    for n_, d in rules_mod.defs.items():
        v = d.value if isinstance(d, (ast.Assign, ast.AnnAssign)) else None
        if v is None or 'Registry' not in ast.unparse(v):
            continue
        for node in ast.walk(v):
            if isinstance(node, ast.Name):
                k = table.find(f'{rules_mod.name}.{node.id}')
                if k is not None and base is not None and (k is base or table.is_subclass(k, base)):
                    return k
    return base


def _driver_object(it, alg):
    """An instance of the driver class: through its constructor when it has one (called without arguments), else bare."""
    from ..axinterp import Obj, Raised, Undecided

    if any(isinstance(k.own.get('__init__'), ast.FunctionDef) for k in alg.mro):
        try:
            return it.construct(alg)
        except (Raised, Undecided):
            pass
    return Obj(alg, {})


def abstract_driver(ctx, rules):
    """The reduction driver set up for abstract execution (sa/axinterp.py): an interpreter in which the registry consulted by
    AlgebraicReductionRule.apply holds an instance of every concrete binary rule, in registration (import) order.  Returns
    (interpreter, call) where call(chain) evaluates apply on a list of abstract operators, or None."""
    from ..axinterp import Env, Func, Interp, Obj, Raised, Undecided, UNK

    world, table = ctx.world, ctx.table
    alg = table.get(f'{RULES}.AlgebraicReductionRule')
    reg_cls = table.find(f'{RULES}.RuleRegistry')
    base = table.get(f'{CORE}.AbstractLinearOperator')
    apr = table.resolve(alg, 'apply')
    if reg_cls is None or apr is None:
        return None
    fn = apr.node
    binary = [r for r in rules if table.is_subclass(r, f'{RULES}.AbstractBinaryRule') and not r.name.startswith('Abstract')]
    rank = import_order(world)
    binary.sort(key=lambda r: (rank.get(r.module.name, 10**6), r.node.lineno))
    rules_mod = module_of(fn)
    reg_names = [n for n, d in rules_mod.defs.items() if isinstance(d, (ast.Assign, ast.AnnAssign)) and d.value is not None and 'Registry' in ast.unparse(d.value)]
    reg_cls = _registry_class(table, rules_mod) or reg_cls
    out_fn = base.own.get('out_structure')
    it = Interp(world, table, budget=200_000)
    it.symbolic = True
    it.constructible = {k.qual for k in table.operators()} | {k.qual for k in table.classes.values() if k.module.name == rules_mod.name or table.is_subclass(k, f'{RULES}.AbstractRule')}
    if isinstance(out_fn, ast.FunctionDef):
        it.summaries[id(out_fn)] = lambda args, kwargs: args[0].attrs.get('__out__', UNK)
    try:
        registry = it.construct(reg_cls)
        for r in binary:
            has_init = any(isinstance(k.own.get('__init__'), ast.FunctionDef) for k in r.mro)
            it.call_method(registry, 'register', it.construct(r) if has_init else Obj(r, {}))
    except (Undecided, Raised):
        return None
    for nm in reg_names:
        it.globals_override[(rules_mod.name, nm)] = registry

    def call(chain):
        it.steps = 0
        del it.degraded[:]
        return it.call_function(Func(fn, Env(rules_mod), _driver_object(it, alg), apr.found_on), [list(chain)], {})

    return it, call, fn


def run(ctx, ck) -> None:
    world, table = ctx.world, ctx.table
    rules = table.rules()
    infos = {r.qual: rule_info(table, r) for r in rules}
    n8_decided = _normal_form_by_execution(ctx, ck, rules)
    # ------------------------------------------------------------------ N1
    pats = patterns(table)
    ck.floor('N1', len(pats), 20, 'documented patterns')
    for L, Rc, text in pats:
        hit = None
        for r in rules:
            if _accepts(table, infos[r.qual], L, Rc) and _has_rewrite_path(world, table, r, L, Rc):
                hit = r
                break
        ck.expect('N1', hit is not None, f'{RULES}.BINARY_RULE_REGISTRY',
                  f'accepted by {hit.name if hit else "-"} (class guards) with a rewriting path',
                  f'no registered rule accepts the documented pattern {text} ({L.name} @ {Rc.name}): it is silently left unreduced', instance=text)

    # ------------------------------------------------------------------ N2
    alg = table.get(f'{RULES}.AlgebraicReductionRule')
    ap = table.resolve(alg, 'apply')
    if ap is None or not isinstance(ap.node, ast.FunctionDef):
        raise AnalysisError('anchor vanished: AlgebraicReductionRule.apply')
    fn = ap.node
    whiles = [n for n in fn.body if isinstance(n, ast.While)]
    if len(whiles) != 1:
        ck.incomplete('N2', fn, f'expected one scan loop, found {len(whiles)}')
        return
    loop = whiles[0]
    _scan_order(ctx, ck, fn, loop, rules, infos, pats)
    test = term(loop.test)
    # index < len(operands) - 1
    cur = None
    seq = None
    if test[0] == 'cmp' and test[1] == 'lt' and test[2][0] == 'var' and test[3][0] == 'binop' and test[3][1] == '-' and test[3][3] == ('const', '1') \
            and test[3][2][0] == 'call' and test[3][2][1] == ('var', 'len'):
        cur, seq = test[2][1], test[3][2][2][0]
    elif test[0] == 'cmp' and test[1] == 'lt' and test[2][0] == 'binop' and test[2][1] == '+' and test[2][3] == ('const', '1') and test[3][0] == 'call' and test[3][1] == ('var', 'len'):
        cur, seq = test[2][2][1], test[3][2][0]
    ck.expect('N2', cur is not None, loop, f'the scan continues while {show(test)}: it only ends when the cursor reaches the last pair',
              f'the scan loop condition {show(test)} is not "cursor < len(operands) - 1": the scan may stop before the end of the chain', instance='loop condition')
    if cur is None:
        return
    for n in ast.walk(loop):
        if isinstance(n, ast.Return):
            ck.bad('N2', n, 'a return inside the scan loop ends the scan before the end of the chain', instance='early exit')
    # does a `break` leave the while loop directly?
    def breaks_of_while(stmts, depth=0):
        out = []
        for st in stmts:
            if isinstance(st, ast.Break) and depth == 0:
                out.append(st)
            elif isinstance(st, (ast.For, ast.While)):
                out += breaks_of_while(st.orelse, depth)
            elif isinstance(st, ast.If):
                out += breaks_of_while(st.body, depth) + breaks_of_while(st.orelse, depth)
            elif isinstance(st, ast.Try):
                out += breaks_of_while(st.body, depth) + breaks_of_while(st.orelse, depth)
                for h in st.handlers:
                    out += breaks_of_while(h.body, depth)
        return out
    for b in breaks_of_while(loop.body):
        ck.bad('N2', b, 'a break leaves the scan loop before the end of the chain', instance='early exit')

    from ..paths import enum_paths

    body_paths = enum_paths(loop.body)
    nrewrite = nadvance = 0
    for i, p in enumerate(body_paths):
        if p.exit not in ('fall', 'continue'):
            continue
        has_splice = any(ev[0] == 'stmt' and isinstance(ev[1], ast.Assign) and isinstance(ev[1].targets[0], ast.Subscript) and isinstance(ev[1].targets[0].value, ast.Name)
                         and ev[1].targets[0].value.id == seq[1] for ev in p.events)
        # the cursor after this path as a function of the cursor before it: decided by evaluating the path for the
        # cursor values 0..6 (the updates only add constants, compare with constants and take max/min)
        from ..terms import NotEvaluable, eval_term

        CUR = ('var', cur)
        outcomes: dict[int, int] = {}
        unknown = None
        for i0 in range(0, 7):
            env_c: dict = {}
            feasible = True
            for ev in p.events:
                if ev[0] == 'cond':
                    t = term(ev[1], env_c)
                    try:
                        v = eval_term(t, {CUR: i0})
                    except NotEvaluable:
                        continue  # a condition on something else than the cursor
                    if bool(v) != ev[2]:
                        feasible = False
                        break
                else:
                    env_c = path_env(Path([ev]), env_c)
            if not feasible:
                continue
            try:
                outcomes[i0] = eval_term(env_c.get(cur, CUR), {CUR: i0})
            except NotEvaluable as exc:
                unknown = str(exc)
        if not outcomes and unknown is None:
            continue
        shown = ', '.join(f'{a}->{b}' for a, b in sorted(outcomes.items())) if unknown is None else f'not evaluable ({unknown})'
        if has_splice:
            nrewrite += 1
            ok = unknown is None and all(0 <= new <= max(old - 1, 0) for old, new in outcomes.items())
            ck.expect('N2', ok, loop, f'after a rewrite the cursor steps back (or restarts): {shown}: the pair to the left of the new operators is re-examined',
                      f'after a rewrite the cursor moves as {shown}: the pair formed with the operator on the left of the rewrite is never examined, so a reducible pair can remain', instance=f'rewrite path {nrewrite}')
            # the rewrite must leave the rule loop (break): no further rule is tried on the stale pair
            after = False
            tried_after = False
            for ev in p.events:
                if ev[0] == 'stmt' and isinstance(ev[1], ast.Assign) and isinstance(ev[1].targets[0], ast.Subscript):
                    after = True
                elif after and ev[0] == 'try':
                    tried_after = True
            ck.expect('N2', not tried_after, loop, 'the rule loop is left right after the rewrite', 'another rule is tried on the stale (left, right) pair after a rewrite', instance=f'rewrite path {nrewrite} leaves rule loop', nontrivial=False)
        else:
            nadvance += 1
            ck.expect('N2', unknown is None and all(new == old + 1 for old, new in outcomes.items()), loop, 'no rule applied: the cursor advances by exactly one',
                      f'when no rule applies the cursor moves as {shown} instead of cursor+1 (pairs are skipped or the scan does not progress)', instance=f'advance path {nadvance}')
    ck.floor('N2', nrewrite, 2, 'rewrite paths of one scan iteration')
    ck.floor('N2', nadvance, 1, 'advance paths of one scan iteration')

    # ------------------------------------------------------------------ N3
    hom = table.get(f'{RULES}.HomothetyRule')
    hap = table.resolve(hom, 'apply')
    assert hap is not None
    hfn = hap.node
    from ..rulesem import homothety_roles

    roles = homothety_roles(hfn)
    need = ('first', 'last', 'value', 'kept', 'count', 'side', 'side_term')
    if roles is None or any(k not in roles for k in need):
        ck.incomplete('N3', hfn, f'HomothetyRule.apply: cannot identify the roles {[k for k in need if roles is None or k not in roles]}')
    else:
        first_v, last_v, kept_v, side_v, count_v = (('var', roles[k]) for k in ('first', 'last', 'kept', 'side', 'count'))
        count_v = roles.get('count_term', count_v)
        scal_v = ('var', roles['scalars']) if 'scalars' in roles else None
        aol = roles['side_term']
        osz, isz = ('call', ('attr', first_v, 'out_size'), (), ()), ('call', ('attr', last_v, 'in_size'), (), ())
        want_cmp = {('cmp', 'le', osz, isz), ('cmp', 'lt', osz, isz), ('cmp', 'ge', isz, osz), ('cmp', 'gt', isz, osz)}
        ck.expect('N3', aol in want_cmp, hfn, 'the scalar goes left iff out_size(first) <= in_size(last): it multiplies the smaller number of elements',
                  f'the side of the merged scalar is decided by {show(aol)}, not by comparing out_size(first) with in_size(last)', instance='side criterion')
        placed = 0
        for p in function_paths(hfn):
            if p.exit != 'return':
                continue
            t = term(p.node.value)
            if t[0] == 'binop' and t[1] == '+':
                left_side = t[2][0] == 'list' and len(t[2]) == 2 and t[2][1][0] == 'call' and t[2][1][1] == ('var', 'HomothetyOperator')
                pol = None
                for e, q in p.conds():
                    if term(e) == side_v:
                        pol = q
                placed += 1
                ck.expect('N3', pol is not None and pol == left_side, hfn, f'placed on the {"left" if left_side else "right"} exactly when the criterion says so',
                          f'the merged scalar is placed on the {"left" if left_side else "right"} when the side criterion is {pol}', instance=f'placement {"left" if left_side else "right"}')
                others = t[3] if left_side else t[2]
                ck.expect('N3', others == kept_v, hfn, 'exactly one scalar operator remains, next to the non-scalar operands in order',
                          f'the result keeps {show(others)} besides the merged scalar', instance=f'one scalar {"left" if left_side else "right"}', nontrivial=False)
        ck.floor('N3', placed, 2, 'scalar placement returns')
        ops_name = roles['ops']
        nunchanged = 0
        for p in function_paths(hfn):
            if p.exit != 'return' or term(p.node.value) != ('var', ops_name):
                continue
            nunchanged += 1
            from ..terms import atom_facts as _af

            # names that are plain aliases of other names (x = y, assigned once) are read through
            alias_env = {}
            for st in ast.walk(hfn):
                if isinstance(st, ast.Assign) and len(st.targets) == 1 and isinstance(st.targets[0], ast.Name) and isinstance(st.value, ast.Name):
                    tname = st.targets[0].id
                    if sum(1 for n in ast.walk(hfn) if isinstance(n, ast.Name) and n.id == tname and isinstance(n.ctx, ast.Store)) == 1:
                        alias_env[tname] = ('var', st.value.id)
            fs = set()
            for e, q in p.conds():
                fs |= _af(e, q, alias_env)
            few = ('lt', ('call', ('var', 'len'), (('var', ops_name),), ()), ('const', '2')) in fs or ('le', ('call', ('var', 'len'), (('var', ops_name),), ()), ('const', '1')) in fs
            counted = any(f[0] == 'eq' and count_v in f[1] and any(x in (('const', '0'), ('const', '1')) for x in f[1]) for f in fs)
            # `not scalars`: the list of scalar operands is empty
            counted = counted or (scal_v is not None and ('truth', scal_v, False) in fs)
            ck.expect('N3', few or counted, hfn, 'the chain is returned unchanged only when it holds at most one scalar operator (counted over the whole chain)',
                      'HomothetyRule returns the chain unchanged on a path where the number of scalar operators in the whole chain is not known to be 0 or 1: several scalar factors can remain', instance=f'unchanged return {nunchanged}')

    # ------------------------------------------------------------------ N4
    ident = table.by_name('IdentityOperator')
    homo = table.by_name('HomothetyOperator')
    may = {}
    for r in rules:
        may[r.name] = _may_return(world, table, r)
    producers = {ident.name: [n for n, s in may.items() if ident.name in s or '*' in s], homo.name: [n for n, s in may.items() if homo.name in s or '*' in s]}
    renorm = {ident.name: False, homo.name: False}
    rule_vars = {}
    for st in fn.body:
        if isinstance(st, ast.Assign) and isinstance(st.value, ast.Call) and isinstance(st.targets[0], ast.Name):
            q = world.qualify(module_of(st), st.value.func)
            if q == f'{RULES}.IdentityRule':
                rule_vars[st.targets[0].id] = ident.name
            elif q == f'{RULES}.HomothetyRule':
                rule_vars[st.targets[0].id] = homo.name
    for p in body_paths:
        seen_splice = False
        conds_true: list = []
        for ev in p.events:
            if ev[0] == 'stmt' and isinstance(ev[1], ast.Assign) and isinstance(ev[1].targets[0], ast.Subscript):
                seen_splice = True
            elif ev[0] == 'cond' and seen_splice and ev[2]:
                conds_true.append(term(ev[1]))
            elif ev[0] == 'stmt' and seen_splice and isinstance(ev[1], ast.Assign) and isinstance(ev[1].value, ast.Call):
                f = ev[1].value.func
                if isinstance(f, ast.Attribute) and f.attr == 'apply' and isinstance(f.value, ast.Name) and f.value.id in rule_vars:
                    renorm[rule_vars[f.value.id]] = True
    # a re-normalisation written another way (in a helper, on another list...): present and effective, but not in the recognised place
    from .c04 import _self_closure as _closure4

    elsewhere = {ident.name: [], homo.name: []}
    scopes4 = [fn] + list(_closure4(table, table.get(f'{RULES}.AlgebraicReductionRule'), fn).values())
    for sc in scopes4:
        local_rules = dict(rule_vars) if sc is fn else {}
        for n in ast.walk(sc):
            if not (isinstance(n, ast.Call) and isinstance(n.func, ast.Attribute) and n.func.attr == 'apply'):
                continue
            recv = n.func.value
            kname = None
            if isinstance(recv, ast.Name) and recv.id in local_rules:
                kname = local_rules[recv.id]
            elif isinstance(recv, ast.Call):
                q = world.qualify(module_of(recv), recv.func)
                kname = ident.name if q == f'{RULES}.IdentityRule' else homo.name if q == f'{RULES}.HomothetyRule' else None
            if kname is None or (sc is fn and not any(n is x for lp in [w for w in ast.walk(fn) if isinstance(w, ast.While)] for x in ast.walk(lp))):
                continue
            par = getattr(n, '_parent', None)
            effective = False
            if isinstance(par, ast.Return):
                effective = True
            elif isinstance(par, ast.Assign) and par.value is n:
                tgt = par.targets[0]
                if isinstance(tgt, ast.Subscript):
                    effective = True  # stored into a list (in place)
                elif isinstance(tgt, ast.Name):
                    later = [x for x in ast.walk(sc) if isinstance(x, ast.Name) and x.id == tgt.id and isinstance(x.ctx, ast.Load) and (x.lineno, x.col_offset) > (par.end_lineno, par.end_col_offset)]
                    in_loop = any(isinstance(a, (ast.While, ast.For)) for a in _ancestors(par, sc))
                    effective = bool(later) or in_loop
            elsewhere[kname].append(effective)
    for k, prods in producers.items():
        if prods and not renorm[k] and any(elsewhere[k]):
            ck.incomplete('N4', fn, f'{k} may be produced by {prods[:3]}; the n-ary rule for {k} is re-applied after a rewrite, but not in the arrangement this clause recognises '
                          '(in a helper, or on another list): whether the normal form is reached is not decided', instance=f're-normalise {k}')
        elif prods and not renorm[k] and elsewhere[k]:
            ck.bad('N4', fn, f'rules {prods[:4]} may produce a {k}; the n-ary rule for {k} is applied after a rewrite but its result is dropped (bound to a name that is never read again): '
                   'the chain the scan goes on with still contains the factor', instance=f're-normalise {k}')
        elif prods:
            ck.expect('N4', renorm[k], fn, f'{k} may be produced by {prods[:3]}...; the rewrite path re-applies the n-ary rule for {k}',
                      f'rules {prods[:4]} may produce a {k} (e.g. a block-diagonal of identities reduces to the identity), but after a rewrite the driver never re-applies the n-ary rule for {k}: the normal form (no identity factor, one scalar) is not reached', instance=f're-normalise {k}')
        else:
            ck.ok('N4', fn, f'no rule can produce a {k}', instance=f're-normalise {k}', nontrivial=False)

    _stateless(ck, world, table)

    # ------------------------------------------------------------------ N6 driver order (shared with C01.R-DRV / R-NARY)
    from . import c01

    sub = type(ck)(ck.pid)
    c01._r_drv(sub, world, table, strict_order=True)
    c01._r_nary(sub, world, table)
    for o in sub.obs:
        if o.rule.endswith(('R-DRV', 'R-NARY')) and 'scalar product' not in o.construct:
            o.rule = f'{ck.pid}.N6'
            ck.obs.append(o)
    if n8_decided:
        # the clauses on the written form of the n-ary rules (N3 placement, N6 / R-NARY shape of HomothetyRule.apply and
        # IdentityRule.apply) describe one way of writing them; where they cannot follow the code, the abstract execution (N8) stands
        kept = []
        for o in ck.obs:
            about_nary = o.rule.endswith(('N3', 'N6')) and any(w in o.construct for w in ('HomothetyRule.apply', 'IdentityRule.apply'))
            if about_nary and o.status == 'incomplete':
                ck.note(f'{o.rule} [{o.construct}] not decided structurally ({o.how[:100]}); superseded by N8')
                continue
            kept.append(o)
        ck.obs[:] = kept
    ck.floor('N6', sum(1 for o in ck.obs if o.rule.endswith('N6')), 4, 'driver obligations (operands reduced first, n-ary rules before the scan)')


MUTATORS = {'add', 'append', 'extend', 'update', 'setdefault', 'pop', 'popitem', 'remove', 'discard', 'clear', 'insert', '__setitem__', 'appendleft'}
CACHES = {'functools.lru_cache', 'functools.cache', 'functools.cached_property'}


def _stateless(ck, world, table) -> None:
    """N5: whether a pattern is rewritten depends on the pair alone.

    The registry holds one instance of every rule for the life of the process and the driver is re-created per call, so a
    rule method that stores into its instance (or class, or a module global), or that is memoised, makes the outcome for
    one pair depend on the pairs seen before - in the same chain or in an earlier one.
    """
    base = table.get(f'{RULES}.AbstractRule')
    fns = []
    for cls in [base] + list(table.subclasses(base, strict=True)):
        for name, f in cls.own.items():
            if isinstance(f, ast.FunctionDef) and name != '__init_subclass__':
                fns.append((cls, f))
    ck.floor('N5', len(fns), 15, 'rule methods scanned for retained state')
    nbad = 0
    for cls, f in fns:
        me = f.args.args[0].arg if f.args.args else None
        decos = {world.qualify(module_of(f), d.func if isinstance(d, ast.Call) else d) for d in f.decorator_list}
        static = bool(decos & {'staticmethod'})
        if decos & CACHES:
            nbad += 1
            ck.bad('N5', f, f'{cls.name}.{f.name} is memoised: its outcome for a pair is retained across calls', instance=f'{cls.name}.{f.name} cache')
        for n in ast.walk(f):
            why = None
            if isinstance(n, (ast.Global, ast.Nonlocal)) and enclosing(n, (ast.FunctionDef, ast.Lambda)) is f:
                why = f'declares {", ".join(n.names)} global'
            elif me and not static and f.name != '__init__' and isinstance(n, ast.Attribute) and isinstance(n.ctx, (ast.Store, ast.Del)) and _rooted(n.value, me):
                why = f'stores {ast.unparse(n)}'
            elif me and not static and isinstance(n, ast.Subscript) and isinstance(n.ctx, (ast.Store, ast.Del)) and _rooted(n.value, me) and isinstance(n.value, ast.Attribute):
                why = f'stores into {ast.unparse(n.value)}'
            elif me and not static and isinstance(n, ast.Call) and isinstance(n.func, ast.Attribute) and n.func.attr in MUTATORS and isinstance(n.func.value, ast.Attribute) and _rooted(n.func.value, me):
                why = f'mutates {ast.unparse(n.func.value)}'
            if why:
                nbad += 1
                ck.bad('N5', n, f'{cls.name}.{f.name} {why}: the rule instance lives in the registry for the whole process, so whether a pair is rewritten depends on '
                       'the pairs the rule has seen before (an irreducible pair of the same classes can disable the pattern for every later chain)', instance=f'{cls.name}.{f.name} state', semantic=True)
    if not nbad:
        ck.ok('N5', fns[0][1], f'no rule method stores into its instance, its class or a module global, and none is memoised ({len(fns)} methods): '
              'the outcome for a pair depends on the pair alone', instance='rules keep no state')


def _rooted(e: ast.AST, name: str) -> bool:
    while isinstance(e, (ast.Attribute, ast.Subscript)):
        e = e.value
    if isinstance(e, ast.Call) and isinstance(e.func, ast.Name) and e.func.id == 'type' and e.args:
        e = e.args[0]
    return isinstance(e, ast.Name) and e.id == name


def _show_cursor(val, nonpos) -> str:
    if val[0] == 'c':
        return str(val[1])
    if val[0] == 'i':
        s = 'cursor' + (f'{val[1]:+d}' if val[1] else '')
        return s + (' (with cursor == 0)' if nonpos and val[1] == 0 else '')
    return str(val[1])


def _may_return(world, table, rule) -> set[str]:
    """Classes that the operators returned by rule.apply may have ('*' = any)."""
    out: set[str] = set()
    for fs, path, env, fn in method_paths(world, table, rule, 'apply'):
        if path.exit != 'return':
            continue
        t = term(path.node.value, path_env(path))
        if t[0] != 'list':
            out.add('*')
            continue
        for e in t[1:]:
            out |= _classes_of_result(world, table, rule, e, fn)
    return out


def _classes_of_result(world, table, rule, e, fn) -> set[str]:
    params = [a.arg for a in fn.args.args]
    if e[0] == 'var' and e[1] in params[1:]:
        return {f'<{e[1]}>'}
    if e[0] == 'attr' and e[2] == 'operator':
        return {'<operand>'}
    if e[0] == 'call' and e[1][0] == 'var':
        q = world.qualify(module_of(fn), e[1][1])
        c = table.find(q) if q else None
        if c is not None:
            return {c.name}
    if e[0] == 'RED':
        inner = e[1]
        classes: list[ClassInfo] = []
        if inner[0] == 'call' and inner[1] == ('attr', ('var', params[0]), 'reduced_class'):
            classes = table.class_refs(rule, 'reduced_class') or []
        elif inner[0] == 'call' and inner[1][0] == 'var':
            q = world.qualify(module_of(fn), inner[1][1])
            c = table.find(q) if q else None
            classes = [c] if c else []
        if not classes:
            return {'*'}
        out: set[str] = set()
        for c in classes:
            r = table.resolve(c, 'reduce')
            if r is None or not isinstance(r.node, ast.FunctionDef):
                return {'*'}
            for p in function_paths(r.node):
                if p.exit != 'return':
                    continue
                rt = term(p.node.value, path_env(p))
                if rt[0] == 'call' and rt[1][0] == 'var' and table.find(world.qualify(module_of(r.node), rt[1][1]) or '') is not None:
                    out.add(table.find(world.qualify(module_of(r.node), rt[1][1])).name)
                elif rt[0] == 'var' and rt[1] == r.node.args.args[0].arg:
                    out.add(c.name)
                elif rt[0] == 'call' and rt[1] == ('call', ('var', 'type'), (('var', r.node.args.args[0].arg),), ()):
                    out.add(c.name)
                else:
                    out.add('*')
        return out
    return {'*'}


def controls(world: World) -> list[Control]:
    return [
        Control('narrowed-class-tuple', lambda w: edit_def(w, 'furax.operators.hwp', 'QURotationHWPRule', lambda c: replace_stmt(c, 'left_operator_class = (QURotationOperator, QURotationTransposeOperator)', 'left_operator_class = QURotationOperator')), 'C07.N1'),
        Control('no-step-back', lambda w: edit_def(w, RULES, 'AlgebraicReductionRule.apply', lambda fn: remove_stmt(fn, 'if index > 0:', prefix=True)), 'C07.N2'),
        Control('skip-after-no-rule', lambda w: edit_def(w, RULES, 'AlgebraicReductionRule.apply', lambda fn: replace_stmt(fn, 'index += 1', 'index += 2')), 'C07.N2'),
        Control('identity-not-refiltered', lambda w: edit_def(w, RULES, 'AlgebraicReductionRule.apply', lambda fn: remove_stmt(fn, 'if any((isinstance(op, IdentityOperator) for op in new_ops)):', prefix=True)), 'C07.N4'),
        Control('no-step-back-after-rewrite', lambda w: edit_def(w, RULES, 'AlgebraicReductionRule.apply', lambda fn: remove_stmt(fn, 'if index > 0:', prefix=True)), 'C07.N8'),
        Control('registry-iterated-backwards', lambda w: edit_def(w, RULES, 'RuleRegistry.__iter__', lambda fn: replace_expr(fn, 'iter(self._registry)', 'iter(self._registry[::-1])')), 'C07.N7'),
        Control('placement-inverted', lambda w: edit_def(w, RULES, 'HomothetyRule.apply', lambda fn: replace_expr(fn, 'first.out_size() <= last.in_size()', 'first.out_size() >= last.in_size()')), 'C07.N3'),
    ]

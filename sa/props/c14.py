"""C14 - einsum block operator and its rewritten-subscript transpose (structural necessary conditions only)."""

from __future__ import annotations

import ast

from ..loader import AnalysisError, World, module_of
from ..mutate import edit_def, remove_stmt, replace_expr, replace_stmt
from ..paths import exception_name, function_paths
from ..run import Control
from ..terms import path_env, show, term
from . import c03

LEVEL = 'other'
DENSE = 'furax._base.dense'
RULE_TEXT = (
    'every einsum call of mv (role order), the transpose constructor and every rejection guard of the subscript parser / rewriter are '
    'enumerated; an obligation is one (call | guard, clause) item; non-trivial = discharged by a term derivation or guard extraction'
)
EXPLANATION = (
    'STRUCTURAL NECESSARY CONDITIONS ONLY. Decided: all three branches of mv (single leaf, shared blocks, one block array per leaf) call '
    'einsum with (subscripts, blocks, leaf) in that role order; transpose keeps the same blocks, passes self.out_structure() as the new '
    'input structure and the rewritten subscripts of self.subscripts; each of the six rejections (comma count, explicit mode, one '
    'contracted axis, at least / at most one free block axis, input layout equal to the output layout with the free letter replaced by '
    'the contracted one - an exact ordered string comparison) dominates the return. NOT decided: that the letter swap yields the '
    'adjoint for every accepted subscript string - a property of a string algorithm over an unbounded family of inputs, for which no '
    'static domain here is adequate (enumerating strings would be a dynamic technique).'
)


def _structural(ctx, ck) -> None:
    world, table = ctx.world, ctx.table
    cls = table.get(f'{DENSE}.DenseBlockDiagonalOperator')
    mv = cls.own.get('mv')
    parse = cls.own.get('_parse_subscripts')
    rew = cls.own.get('_get_transposed_subscripts')
    tr = cls.own.get('transpose')
    if not all(isinstance(x, ast.FunctionDef) for x in (mv, parse, rew, tr)):
        raise AnalysisError('anchor vanished: DenseBlockDiagonalOperator.mv/_parse_subscripts/_get_transposed_subscripts/transpose')
    S, x = ('var', mv.args.args[0].arg), ('var', mv.args.args[1].arg)
    subs, blocks = ('attr', S, 'subscripts'), ('attr', S, 'blocks')
    # ------------------------------------------------------------------ E1 role order
    n = 0
    for p in function_paths(mv):
        if p.exit != 'return':
            continue
        n += 1
        e = path_env(p)
        t = term(p.node.value, e)
        ok, why = _role_order(t, subs, blocks, x, e)
        ck.expect('E1', ok, mv, f'einsum(subscripts, blocks, leaf) in that role order ({why})',
                  f'a branch of mv does not call einsum with (self.subscripts, blocks, input leaf) in that order: {why}', instance=f'branch {n}')
    ck.floor('E1', n, 3, 'returning branches of mv')
    # ------------------------------------------------------------------ E2 transpose
    ok, why = c03.s_dense(table, cls, tr)
    ck.expect('E2', ok, tr, why, f'transpose: {why}', instance='transpose constructor')
    # the constructor validates the subscripts before storing
    init = cls.own.get('__init__')
    if isinstance(init, ast.FunctionDef):
        order = [ast.unparse(st) for st in init.body]
        i_parse = next((i for i, s in enumerate(order) if '_parse_subscripts(' in s), None)
        i_store = next((i for i, (s, st) in enumerate(zip(order, init.body)) if isinstance(st, ast.Assign) and s.startswith('self.')), None)
        ck.expect('E3', i_parse is not None and (i_store is None or i_parse < i_store), init, 'subscripts are parsed (and refused if malformed) before any field is stored',
                  'the constructor no longer parses the subscripts before storing them', instance='parse at construction')
        dims = any(isinstance(n2, ast.Raise) for n2 in ast.walk(init)) and 'len(leaf.shape) >= 2' in ast.unparse(init)
        ck.expect('E3', dims, init, 'blocks with fewer than two dimensions are refused', 'blocks with fewer than 2 dimensions are no longer refused', instance='block rank', nontrivial=False)

    # ------------------------------------------------------------------ E5 the blocks are stored as given
    if isinstance(init, ast.FunctionDef):
        from ..paramflow import integrity

        kind, ex = integrity(init, 'blocks', init.args.args[1].arg)
        if kind == 'identity':
            ck.ok('E5', init, 'the block arrays are stored as given', instance='blocks stored')
        elif kind == 'cast':
            ck.bad('E5', init, f'the constructor casts the blocks before storing them ({show(ex)[:90]}): blocks wider than the cast dtype (complex blocks on a real structure) are silently truncated, so the operator '
                   'no longer applies einsum(subscripts, blocks, leaf)', instance='blocks stored')
        else:
            ck.incomplete('E5', init, f'the blocks are stored as {show(ex)[:80]}', instance='blocks stored')

    # ------------------------------------------------------------------ E3 rejections
    from ..terms import raise_paths

    pfacts = [fs for fs, _, _ in raise_paths(parse, 'ValueError')]
    rfacts = [fs for fs, _, _ in raise_paths(rew, 'ValueError')]

    def has_len_ne(facts_list, needle: str, n: str) -> bool:
        for fs in facts_list:
            for f in fs:
                if f[0] == 'ne' and ('const', n) in f[1]:
                    other = next(x for x in f[1] if x != ('const', n))
                    txt = show(other).replace('"', "'")
                    if txt.startswith('len(') and needle in txt:
                        return True
        return False

    commas = has_len_ne(pfacts, "split(',')", '2')
    arrow = has_len_ne(pfacts, "split('->')", '2')
    ck.expect('E3', commas, parse, 'anything but exactly two operands (one comma) is refused', 'subscripts without exactly one comma are no longer refused', instance='two operands')
    ck.expect('E3', arrow, parse, 'implicit mode (no ->) is refused', 'implicit-mode subscripts are no longer refused', instance='explicit mode')
    # role discovery (local names are irrelevant): the three parts of the parsed subscripts, their letter sets,
    # the contracted / free letter sets and the expected input layout
    from ..paths import exception_name as _exc
    from ..terms import atom_facts

    parts = None
    for st in rew.body:
        if isinstance(st, ast.Assign) and isinstance(st.targets[0], ast.Tuple) and len(st.targets[0].elts) == 3 and isinstance(st.value, ast.Call) and ast.unparse(st.value.func).endswith('_parse_subscripts'):
            parts = [e.id for e in st.targets[0].elts if isinstance(e, ast.Name)]
    if parts is None or len(parts) != 3:
        ck.incomplete('E3', rew, 'the rewriter no longer unpacks (blocks, input, result) subscripts from _parse_subscripts')
        return
    lefts_n, rights_n, results_n = parts

    def set_of(name):
        return ('call', ('var', 'set'), (('call', ('attr', ('var', name), 'replace'), (('const', "'...'"), ('const', "''")), ()),), ())

    # local names are read through (a set may be computed from an intermediate `letters = lefts.replace(...)`): every
    # assignment is expanded with the values of the names assigned before it, the three parsed parts staying symbolic
    set_names: dict = {}
    derived: dict = {}
    env_x: dict = {}
    for st in rew.body:
        if isinstance(st, ast.Assign) and isinstance(st.targets[0], ast.Name):
            t = term(st.value, env_x)
            for role, n in (('L', lefts_n), ('R', rights_n), ('O', results_n)):
                if t == set_of(n) and role not in set_names:
                    set_names[role] = st.targets[0].id
            if t[0] == 'binop' and t[1] in ('&', '-') and st.targets[0].id not in derived.values():
                derived[st.targets[0].id] = t
            if st.targets[0].id not in (lefts_n, rights_n, results_n):
                env_x[st.targets[0].id] = t
    if len(set_names) != 3:
        ck.incomplete('E3', rew, 'cannot identify the three letter sets of the subscripts')
        return
    Ls, Rs, Os = (set_of(n) for n in (lefts_n, rights_n, results_n))
    want_sum = {('binop', '&', Ls, ('binop', '-', Rs, Os)), ('binop', '-', ('binop', '&', Ls, Rs), Os), ('binop', '-', ('binop', '&', Rs, Ls), Os)}
    want_tr = {('binop', '&', Ls, ('binop', '-', Os, Rs)), ('binop', '-', ('binop', '&', Ls, Os), Rs), ('binop', '-', ('binop', '&', Os, Ls), Rs)}
    sum_name = next((n for n, t in derived.items() if t in want_sum), None)
    tr_name = next((n for n, t in derived.items() if t in want_tr), None)
    ck.expect('E3', sum_name is not None, rew, 'the contracted letter is in both operands and not in the result', f'no set is computed as blocks & input - result (found {[show(t) for t in derived.values()]})', instance='contracted letter')
    ck.expect('E3', tr_name is not None, rew, 'the free letter is in the blocks and the result and not in the input', f'no set is computed as blocks & result - input (found {[show(t) for t in derived.values()]})', instance='free letter')
    raw = []
    for p in function_paths(rew):
        if p.exit == 'raise' and _exc(p.node) == 'ValueError':
            conds = p.conds()
            if conds:
                ex, pol = conds[-1]
                raw.append(atom_facts(ex, pol, {}))
    len_sum = ('call', ('var', 'len'), (('var', sum_name),), ())
    len_tr = ('call', ('var', 'len'), (('var', tr_name),), ())
    # decided on the returning paths: the facts known there must leave 1 as the only possible size of each set
    from ..terms import facts as _path_facts

    def sizes(fs, set_name, len_t):
        cands = set(range(0, 5))
        for f in fs:
            for n in list(cands):
                env = {len_t: n}
                ok = True
                if f[0] in ('eq', 'ne') and len_t in f[1] and len(f[1]) == 2:
                    other = next(x for x in f[1] if x != len_t)
                    if other[0] == 'const' and other[1].lstrip('-').isdigit():
                        ok = (n == int(other[1])) == (f[0] == 'eq')
                elif f[0] in ('lt', 'le') and len_t in (f[1], f[2]):
                    a, b = f[1], f[2]
                    av = n if a == len_t else (int(a[1]) if a[0] == 'const' and a[1].lstrip('-').isdigit() else None)
                    bv = n if b == len_t else (int(b[1]) if b[0] == 'const' and b[1].lstrip('-').isdigit() else None)
                    if av is not None and bv is not None:
                        ok = av < bv if f[0] == 'lt' else av <= bv
                elif f[0] == 'truth' and f[1] == ('var', set_name):
                    ok = (n > 0) == f[2]
                if not ok:
                    cands.discard(n)
        return cands

    ret_paths = [p for p in function_paths(rew) if p.exit == 'return']
    sum_sizes: set = set()
    tr_sizes: set = set()
    for p in ret_paths:
        fs = _path_facts(p)
        e = path_env(p)

        def both(name, len_t):
            # the set may appear under its name or as the expression it was computed from
            alt = ('call', ('var', 'len'), (e.get(name, ('var', name)),), ())
            return sizes(fs, name, len_t) & sizes({(f[0], frozenset(len_t if x == alt else x for x in f[1])) if f[0] in ('eq', 'ne') else
                                                   ((f[0], len_t if f[1] == alt else f[1], len_t if f[2] == alt else f[2]) if f[0] in ('lt', 'le') else
                                                    (('truth', ('var', name), f[2]) if f[0] == 'truth' and f[1] == e.get(name) else f)) for f in fs}, name, len_t)

        sum_sizes |= both(sum_name, len_sum) if sum_name else set(range(5))
        tr_sizes |= both(tr_name, len_tr) if tr_name else set(range(5))
    one_sum = bool(ret_paths) and sum_sizes == {1}
    none_t = bool(ret_paths) and 0 not in tr_sizes
    many_t = bool(ret_paths) and all(n <= 1 for n in tr_sizes)
    ck.expect('E3', one_sum, rew, 'contraction count != 1 is refused', 'subscripts without exactly one contracted axis are no longer refused', instance='one contracted axis')
    ck.expect('E3', none_t, rew, 'no free block axis is refused', 'subscripts without a free block axis are no longer refused', instance='free axis present')
    ck.expect('E3', many_t, rew, 'several free block axes are refused', 'subscripts with several free block axes are no longer refused', instance='single free axis')
    # layout guard: ordered string comparison of the input subscripts with the expected layout (a join of a list built from the result)
    layout = False
    for fs in raw:
        for f in fs:
            if f[0] == 'ne' and ('var', rights_n) in f[1] and len(f[1]) == 2:
                # an ordered string comparison with the input subscripts refuses the rewrite; *what* it is compared with is
                # derived by E6 (`expected layout`: the result with the free letter replaced by the contracted one)
                layout = True
    ck.expect('E3', layout, rew, 'the input layout must equal the output layout with the free letter replaced by the contracted one (ordered string comparison)',
              'the layout guard (an ordered `!=` comparison of the input subscripts with the expected layout string) is gone or weakened: subscripts whose input and output axis orders differ are transposed incorrectly instead of being refused', instance='layout guard')
    # E4: the swap exchanges single positions found with .index(): a letter repeated inside the blocks subscripts
    # (a diagonal such as 'ijj,j->i') must therefore be refused, or the swap must replace every occurrence
    src = ast.unparse(rew)
    uses_index = any(isinstance(n, ast.Call) and isinstance(n.func, ast.Attribute) and n.func.attr == 'index' and isinstance(n.func.value, ast.Name) and n.func.value.id == lefts_n for n in ast.walk(rew))
    replaces_all = any(isinstance(n, ast.Call) and isinstance(n.func, ast.Attribute) and n.func.attr in ('translate', 'replace') and isinstance(n.func.value, ast.Name) and n.func.value.id == lefts_n
                       and not (n.args and isinstance(n.args[0], ast.Constant) and n.args[0].value == '...') for n in ast.walk(rew))
    repeat_guard = False
    for fs in raw:
        for f in fs:
            txt = ' '.join(sorted(show(x) for x in f[1])) if f[0] in ('ne', 'eq') else (show(f[1]) + ' ' + show(f[2]) if f[0] in ('lt', 'le') else '')
            if f[0] in ('ne', 'lt', 'le') and 'len(' in txt and 'set(' in txt and lefts_n in txt:
                repeat_guard = True
            if f[0] in ('ne', 'lt', 'le') and '.count(' in txt and lefts_n in txt:
                repeat_guard = True
    # a guard may be written on a derived name (letters = lefts.replace('...', ''))
    if not repeat_guard:
        derived_names = {st.targets[0].id for st in rew.body if isinstance(st, ast.Assign) and isinstance(st.targets[0], ast.Name) and lefts_n in ast.unparse(st.value) and 'set(' not in ast.unparse(st.value)}
        for fs in raw:
            for f in fs:
                txt = ' '.join(sorted(show(x) for x in f[1])) if f[0] in ('ne', 'eq') else (show(f[1]) + ' ' + show(f[2]) if f[0] in ('lt', 'le') else '')
                if f[0] in ('ne', 'lt', 'le') and 'len(' in txt and 'set(' in txt and any(d in txt for d in derived_names):
                    repeat_guard = True
    ck.expect('E4', (not uses_index) and replaces_all or repeat_guard, rew,
              'a letter repeated inside the blocks subscripts is refused (the swap exchanges single positions)' if repeat_guard else 'the swap replaces every occurrence of the two letters',
              'the letter swap exchanges the *first* occurrences found with .index() and nothing refuses a letter repeated inside the blocks subscripts: for a diagonal such as '
              "'ijj,j->i' the transpose gets 'jij,j->i' instead of 'jii,j->i' - accepted and wrong (silently, when the axis sizes coincide)", instance='repeated letters')

    _e6(ck, rew, lefts_n, rights_n, results_n, sum_name, tr_name)

    # the return is reached only after all guards
    rets = [p for p in function_paths(rew) if p.exit == 'return']
    ck.expect('E3', len(rets) == 1 and sum(1 for ev in rets[0].events if ev[0] == 'cond') >= 4, rew, 'the single return is dominated by all rejections',
              'the rewritten subscripts can be returned without passing all rejections', instance='return dominated')
    ck.floor('E3', len(raw) + len(pfacts), 6, 'rejection guards')


# ---------------------------------------------------------------------- E7: bounded exhaustive adjointness of the rewriting
ALPHABET = 'ijkl'


def _tokens(s: str) -> list[str]:
    out, i = [], 0
    while i < len(s):
        if s.startswith('...', i):
            out.append('...')
            i += 3
        else:
            out.append(s[i])
            i += 1
    return out


def _split(s) -> tuple[list[str], list[str], list[str]] | None:
    if not isinstance(s, str) or s.count(',') != 1 or s.count('->') != 1:
        return None
    a, rest = s.split(',')
    b, c = rest.split('->')
    return _tokens(a), _tokens(b), _tokens(c)


def _is_adjoint(orig, new) -> bool:
    """einsum(L2, R2 -> O2)(B, y) is the adjoint in x of einsum(L, R -> O)(B, x) for every block array B exactly when the
    two contraction patterns are isomorphic: one injective renaming of the axis letters maps L to L2 (same block array,
    axis by axis), O to R2 (y takes the place of the result) and R to O2 (the result takes the place of x); an ellipsis
    stands for the same batch axes and maps to itself."""
    (L, R, O), (L2, R2, O2) = orig, new
    phi: dict[str, str] = {}
    for A, B in ((L, L2), (O, R2), (R, O2)):
        if len(A) != len(B):
            return False
        for a, b in zip(A, B):
            if (a == '...') != (b == '...') or phi.setdefault(a, b) != b:
                return False
    return len(set(phi.values())) == len(phi)


def _restricted_growth(n: int, k: int):
    def rec(prefix, m):
        if len(prefix) == n:
            yield prefix
            return
        for c in range(min(m + 1, k)):
            yield from rec(prefix + [c], max(m, c + 1))

    yield from rec([], 0)


def _subscript_family(thorough: bool):
    """Every two-operand explicit subscript string up to renaming of the letters: blocks of 2-3 axes, input and result of 1-2
    axes, at most four distinct letters (repeats included), without ellipsis or with one in (all three | input and result |
    blocks and result) at every position (quick tier: input/result ellipsis leading or trailing only)."""
    import itertools

    def with_ellipsis(tok, present, everywhere):
        if not present:
            yield tok
            return
        for p in (range(len(tok) + 1) if everywhere else sorted({0, len(tok)})):
            yield tok[:p] + ['...'] + tok[p:]

    for nl, nr, no in itertools.product((2, 3), (1, 2), (1, 2)):
        for g in _restricted_growth(nl + nr + no, len(ALPHABET)):
            letters = [ALPHABET[c] for c in g]
            L, R, O = letters[:nl], letters[nl:nl + nr], letters[nl + nr:]
            if len(set(O)) < len(O) or not set(O) <= set(L) | set(R):
                continue  # not a valid einsum
            for el in ((0, 0, 0), (1, 1, 1), (0, 1, 1), (1, 0, 1)):
                if not thorough and el in ((1, 0, 1), (0, 1, 1)):
                    continue
                for L_ in with_ellipsis(L, el[0], True):
                    for R_ in with_ellipsis(R, el[1], thorough):
                        for O_ in with_ellipsis(O, el[2], thorough):
                            if not thorough and el[1] and (R_[0] == '...') != (O_[0] == '...'):
                                continue  # quick tier: input and result ellipsis both leading or both trailing
                            yield L_, R_, O_


def _adjointness(ctx, ck, cls) -> bool:
    """E7.  The rewriting function is interpreted (sa/axinterp.py: the checker's own evaluator of the syntax tree, nothing of
    the repository is imported) on every subscript string of a bounded family that is closed under renaming of the letters -
    the function only compares letters, so one representative per renaming class is exhaustive for that size.  Whatever it
    returns must be an adjoint of the input string (_is_adjoint); a string with exactly one contracted letter, exactly one
    free block letter and no repeated block letter, whose adjoint is the exchange of those two letters in the blocks, must be
    accepted.  Returns True when every string was decided."""
    from .. import run as _run
    from ..axinterp import Env, Func, Interp, Raised, Undecided

    world, table = ctx.world, ctx.table
    if _run.CONTROL_EXPECT and not _run.CONTROL_EXPECT.endswith('E7'):
        return False  # a positive control of another rule is being replayed: the structural clauses stand alone
    r = table.resolve(cls, '_get_transposed_subscripts')
    if r is None or not isinstance(r.node, ast.FunctionDef):
        raise AnalysisError('anchor vanished: DenseBlockDiagonalOperator._get_transposed_subscripts')
    fn = r.node
    static = any(ast.unparse(d) == 'staticmethod' for d in fn.decorator_list)
    it = Interp(world, table, budget=10**9)
    f = Func(fn, Env(module_of(fn)), None if static else table and None, r.found_on)
    thorough = getattr(ctx, 'tier', None) == 'thorough' or bool(__import__('os').environ.get('VERIF_TIER') == 'thorough')
    wrong: list[str] = []
    refused: list[str] = []
    undecided: list[str] = []
    n = accepted = rejected = must = 0
    for L, R, O in _subscript_family(thorough):
        s = ''.join(L) + ',' + ''.join(R) + '->' + ''.join(O)
        n += 1
        Ls = [x for x in L if x != '...']
        contracted = (set(Ls) & set(R)) - set(O) - {'...'}
        free = (set(Ls) & set(O)) - set(R) - {'...'}
        required = False
        if len(contracted) == 1 and len(free) == 1 and len(set(Ls)) == len(Ls):
            a, b = next(iter(contracted)), next(iter(free))
            swapped = [b if x == a else a if x == b else x for x in L]
            required = _is_adjoint((L, R, O), (swapped, R, O))
        must += required
        it.steps = 0
        try:
            res = it.call_function(f, [s] if static else [None, s], {})
        except Raised:
            rejected += 1
            if required:
                refused.append(s)
            continue
        except Undecided as exc:
            undecided.append(f'{s}: {exc}')
            if len(undecided) > 5:
                break
            continue
        if _run.CONTROL_EXPECT and (wrong or refused):
            break  # replaying a positive control: one counterexample is enough
        new = _split(res)
        if new is None:
            if res is None or isinstance(res, str):
                wrong.append(f'{s!r} gives {res!r}')
            else:
                undecided.append(f'{s}: the result is not a string the evaluator can follow')
            continue
        accepted += 1
        if not _is_adjoint((L, R, O), new):
            wrong.append(f'{s!r} gives {res!r}')
    if undecided:
        ck.incomplete('E7', fn, f'the rewriting could not be evaluated for some subscript strings, e.g. {undecided[0]}', instance='adjointness of the rewriting')
        return False
    ck.expect('E7', not wrong, fn,
              f'all {accepted} subscript strings that are accepted (of {n} strings up to renaming: blocks of 2-3 axes, input/result of 1-2 axes, <= 4 letters, every ellipsis placement) are rewritten into an adjoint',
              f'{len(wrong)} of {n} subscript strings are transposed incorrectly, e.g. {"; ".join(wrong[:3])}: the rewritten subscripts do not denote the adjoint (the injective renaming of axis letters that maps '
              'blocks to blocks, result to input and input to result does not exist)', instance='adjointness of the rewriting')
    ck.expect('E7', not refused, fn, f'all {must} strings with one contracted letter and one free block letter whose adjoint is the exchange of the two are accepted',
              f'{len(refused)} subscript strings with a single contracted axis and a single free block axis are refused although exchanging the two letters in the blocks is their adjoint, e.g. {refused[:3]}',
              instance='supported strings accepted')
    ck.counts['E7:subscript strings (up to renaming)'] = n
    ck.counts['E7:accepted'] = accepted
    ck.counts['E7:rejected'] = rejected
    ck.floor('E7', accepted, 100, 'accepted subscript strings')
    return True


def run(ctx, ck) -> None:
    cls = ctx.table.get(f'{DENSE}.DenseBlockDiagonalOperator')
    decided = _adjointness(ctx, ck, cls)
    before = len(ck.obs)
    _structural(ctx, ck)
    if decided:
        # the structural clauses on the rewriting function (E3 letter sets / guards, E6 derived subscripts) describe one way of
        # writing it; where they cannot follow the code, or disagree with the semantic decision above, E7 stands
        kept = []
        for i, o in enumerate(ck.obs):
            about_rewriter = '_get_transposed_subscripts' in o.construct and o.rule.endswith(('E3', 'E6'))
            if i >= before and about_rewriter and o.status != 'ok':
                ck.note(f'{o.rule} [{o.construct}] not decided structurally ({o.status}: {o.how[:120]}); superseded by E7')
                continue
            kept.append(o)
        ck.obs[:] = kept
        ck.floors[:] = [f for f in ck.floors if not (f[0].endswith(('E3', 'E6')) and f[1] < f[2])]


def _e6(ck, rew, lefts_n, rights_n, results_n, sum_set, tr_set) -> None:
    """E6: the returned subscripts are *derived* to be (blocks with the two letters exchanged, input, result).

    The string manipulation on the returning path is interpreted over symbolic strings (sa/strsym.py): the blocks
    subscripts are `A S B T C` or `A T B S C` with S the contracted letter, T the free one and A, B, C arbitrary
    substrings; the result is `D T E`.  Exchanging S and T in the blocks, with input and result unchanged, is the
    adjoint (the layout guard, E3, makes the input layout the result layout with T replaced by S)."""
    from ..loader import Incomplete
    from ..strsym import FStr, Letter, Opaque, Seg, Seq, StrInterp

    if sum_set is None or tr_set is None:
        return

    def letter_var(set_name):
        for st in rew.body:
            if isinstance(st, ast.Assign) and len(st.targets) == 1 and isinstance(st.targets[0], ast.Name):
                v = st.value
                names = {n.id for n in ast.walk(v) if isinstance(n, ast.Name)}
                if set_name in names and not (isinstance(v, ast.Call) and isinstance(v.func, ast.Name) and v.func.id == 'len') and not isinstance(v, (ast.BinOp, ast.Compare)):
                    return st.targets[0].id
            if isinstance(st, ast.Assign) and isinstance(st.targets[0], (ast.Tuple, ast.List)) and len(st.targets[0].elts) == 1 and isinstance(st.value, ast.Name) and st.value.id == set_name:
                if isinstance(st.targets[0].elts[0], ast.Name):
                    return st.targets[0].elts[0].id
        return None

    s_var, t_var = letter_var(sum_set), letter_var(tr_set)
    rets = [p for p in function_paths(rew) if p.exit == 'return']
    if s_var is None or t_var is None or len(rets) != 1:
        ck.incomplete('E6', rew, 'cannot identify the variables holding the contracted and the free letter, or the single returning path', instance='derived subscripts')
        return
    S, T = Letter('S'), Letter('T')
    A, B, C, D, E, R = (Seg(n) for n in 'ABCDER')
    protected = {lefts_n, rights_n, results_n, s_var, t_var}
    stmts = [ev[1] if ev[0] == 'stmt' else ast.Expr(value=ev[1]) for ev in rets[0].events if ev[0] in ('stmt', 'cond')] + [rets[0].node]
    done = 0
    for name, blocks in (('contracted letter first', (A, S, B, T, C)), ('free letter first', (A, T, B, S, C))):
        env = {lefts_n: Seq(blocks), rights_n: Seq((R,)), results_n: Seq((D, T, E)), s_var: S, t_var: T}
        interp = StrInterp()
        inst = f'derived subscripts, {name}'
        try:
            out = None
            for st in stmts:
                if isinstance(st, ast.Return):
                    out = interp.ev(st.value, env)
                    break
                if isinstance(st, ast.Assign) and all(isinstance(t, ast.Name) and t.id in protected for t in st.targets):
                    v = interp.ev(st.value, env)
                    if isinstance(v, Opaque):
                        continue  # the statements that bind the roles themselves
                    for t in st.targets:
                        env[t.id] = v
                    continue
                if isinstance(st, ast.Assign) and isinstance(st.targets[0], (ast.Tuple, ast.List)) and any(isinstance(t, ast.Name) and t.id in protected for t in st.targets[0].elts):
                    continue  # (blocks, input, result) = parse(...): roles
                interp.stmt(st, env)
        except Incomplete as exc:
            ck.incomplete('E6', rew, f'{exc.site}: {exc.why}', instance=inst)
            continue
        want_blocks = Seq(tuple(T if t == S else S if t == T else t for t in blocks))
        if not (isinstance(out, FStr) and len(out.parts) == 5 and out.parts[1] == ',' and out.parts[3] == '->' and all(isinstance(out.parts[i], Seq) for i in (0, 2, 4))):
            ck.incomplete('E6', rew, f'the returned subscripts are not of the form f"{{blocks}},{{input}}->{{result}}" over derivable strings ({out})', instance=inst)
            continue
        got_b, got_i, got_r = out.parts[0], out.parts[2], out.parts[4]
        done += 1
        ck.expect('E6', got_b == want_blocks and got_i == Seq((R,)) and got_r == Seq((D, T, E)), rew,
                  f'blocks `{Seq(blocks).show()}` become `{want_blocks.show()}`: exactly the two letters exchanged, every other subscript in place; input and result subscripts unchanged',
                  f'for blocks subscripts `{Seq(blocks).show()}` (A, B, C arbitrary substrings) the transposed blocks subscripts are `{got_b.show()}`, the adjoint needs `{want_blocks.show()}`'
                  + ('' if got_i == Seq((R,)) and got_r == Seq((D, T, E)) else f'; input/result become `{got_i.show()}` / `{got_r.show()}`')
                  + ': other axes of the blocks are relabelled, so the transposed operator contracts the wrong axes (wrong values when the sizes agree, an einsum error otherwise)', instance=inst)
        # the expected layout compared with the input: result with T replaced by S
        for node, a, b in interp.compares:
            pair = [x for x in (a, b) if isinstance(x, Seq)]
            if len(pair) == 2 and Seq((R,)) in pair:
                other = pair[0] if pair[1] == Seq((R,)) else pair[1]
                ck.expect('E6', other == Seq((D, S, E)), node, 'the layout compared with the input subscripts is the result with the free letter replaced by the contracted one',
                          f'the input subscripts are compared with `{other.show()}`, the adjoint needs `D S E` (result `D T E` with T replaced by S)', instance=f'expected layout, {name}')
    ck.floor('E6', done, 2, 'letter arrangements derived')


def _role_order(t, subs, blocks, x, env):
    s = show(t)
    def einsum_call(c, blk_ok, leaf_ok):
        return c[0] == 'call' and c[1] == ('attr', ('var', 'jnp'), 'einsum') and len(c[2]) == 3 and c[2][0] == subs and blk_ok(c[2][1]) and leaf_ok(c[2][2])
    if einsum_call(t, lambda b: b == blocks, lambda l: l == x):
        return True, 'single leaf'
    if t[0] == 'call' and t[1] == ('attr', ('attr', ('var', 'jax'), 'tree'), 'unflatten') and len(t[2]) == 2 and t[2][1][0] == 'comp':
        c = t[2][1]
        tgt = c[2][0][0]
        if einsum_call(c[1], lambda b: b == blocks, lambda l: l == tgt):
            return True, 'shared blocks, every leaf'
        return False, s
    if t[0] == 'call' and t[1] == ('attr', ('attr', ('var', 'jax'), 'tree'), 'map') and len(t[2]) == 2 and t[2][1] == x and t[2][0][0] == 'lambda' and len(t[2][0][1]) == 1:
        # the same blocks mapped over every leaf of x (tree.map is flatten / apply / unflatten)
        p1 = ('var', t[2][0][1][0])
        if einsum_call(t[2][0][2], lambda b: b == blocks, lambda l: l == p1):
            return True, 'shared blocks, every leaf'
        return False, s
    if t[0] == 'call' and t[1] == ('attr', ('attr', ('var', 'jax'), 'tree'), 'map') and len(t[2]) == 3:
        f, a, b = t[2]
        if f == ('call', ('attr', ('var', 'ft'), 'partial'), (('attr', ('var', 'jnp'), 'einsum'), subs), ()) or f == ('call', ('attr', ('var', 'functools'), 'partial'), (('attr', ('var', 'jnp'), 'einsum'), subs), ()):
            return (a == blocks and b == x), f'per-leaf blocks mapped as ({show(a)}, {show(b)})'
        if f[0] == 'lambda' and len(f[1]) == 2:
            p1, p2 = ('var', f[1][0]), ('var', f[1][1])
            if einsum_call(f[2], lambda bb: bb == p1, lambda l: l == p2):
                return (a == blocks and b == x), f'per-leaf blocks mapped as ({show(a)}, {show(b)})'
            if einsum_call(f[2], lambda bb: bb == p2, lambda l: l == p1):
                return (a == x and b == blocks), f'per-leaf blocks mapped as ({show(a)}, {show(b)})'
    return False, s[:120]


def controls(world: World) -> list[Control]:
    return [
        Control('roles-swapped', lambda w: edit_def(w, DENSE, 'DenseBlockDiagonalOperator.mv', lambda fn: replace_expr(fn, 'jax.tree.map(ft.partial(jnp.einsum, self.subscripts), self.blocks, x)', 'jax.tree.map(ft.partial(jnp.einsum, self.subscripts), x, self.blocks)')), 'C14.E1'),
        Control('layout-guard-weakened', lambda w: edit_def(w, DENSE, 'DenseBlockDiagonalOperator._get_transposed_subscripts', lambda fn: replace_expr(fn, 'expected_results != rights', 'set(expected_results) != set(rights)')), 'C14.E7'),
        Control('half-swap', lambda w: edit_def(w, DENSE, 'DenseBlockDiagonalOperator._get_transposed_subscripts', lambda fn: replace_stmt(fn, 'lefts_as_list[transpose_axis_number] = sum_axis', 'lefts_as_list[transpose_axis_number] = transpose_axis')), 'C14.E7'),
        Control('repeated-block-letter-accepted', lambda w: edit_def(w, DENSE, 'DenseBlockDiagonalOperator._get_transposed_subscripts', lambda fn: remove_stmt(fn, 'if len(set(left_letters)) != len(left_letters):', prefix=True)), 'C14.E7'),
        Control('transpose-input-structure', lambda w: edit_def(w, DENSE, 'DenseBlockDiagonalOperator.transpose', lambda fn: replace_expr(fn, 'self.out_structure()', 'self.in_structure()')), 'C14.E2'),
    ]

"""C04 - application is linear (decided for all inputs) and as_matrix overrides match their schema."""

from __future__ import annotations

import ast

from ..classes import CORE, OPERATOR_BASE
from ..kinds import Lin, NonLin, Unknown, describe
from ..loader import AnalysisError, World, module_of, qualname
from ..mutate import edit_def, replace_expr
from ..opkinds import all_mv
from ..paths import function_paths
from ..run import Control
from ..terms import path_env, show, term

LEVEL = 'other'
RULE_TEXT = (
    'every concrete mv (and the kernels/helpers it reaches) is abstractly interpreted over the kind/linearity domain; '
    'every as_matrix override is matched against the dense-form schema of its class; the generic builder is checked clause by '
    'clause; an obligation is one (class, clause) pair; non-trivial = discharged by kind inference or a term derivation'
)
EXPLANATION = (
    'Linearity op(ax+by) = a op(x) + b op(y) is decided for all inputs by a type-and-effect walk: each mv must evaluate to a '
    'pytree of arrays built from the input by a whitelist of linear primitives with operator parameters as constants (no added '
    'constant, no product of two input-dependent values, no non-linear primitive, no non-array leaf, no lossy cast back to the '
    'input dtype). Dense forms: each of the as_matrix overrides is matched against the mathematical schema of its class '
    '(sum / identity / scalar identity / matrix inverse / hstack, vstack, block_diag over the same leaves as mv / eye for '
    'relabellings / per-leaf diagonal values / shared Toeplitz builder), and the generic column-by-column builder is checked '
    'structurally. Numeric equality of an override with the generic form is not decided.'
)

BLOCKS = 'furax._base.blocks'


def run(ctx, ck) -> None:
    world, table = ctx.world, ctx.table
    ck.trust('the whitelist of linear JAX primitives in sa/kinds.py (reshape, moveaxis, indexing, einsum/matmul/convolve with one '
             'input-dependent operand, zero padding, fft/ifft, .real, concatenate, dynamic_slice/update_slice, .at[].set/add, '
             'jax.linear_transpose, lineax.linear_solve in its right-hand side, jax.tree.map of a linear function)',
             'jax.vectorize / fori_loop / tree utilities preserve linearity of the function they wrap')
    # ------------------------------------------------------------------ L1
    kinds = all_mv(ctx)
    ck.floor('L1', len(kinds), 24, 'concrete mv methods')
    for q, s in kinds.items():
        cname = s.cls.name
        v = s.value
        target = s.fn
        inst = cname
        if isinstance(v, Lin):
            bad_cast = [c for c in s.casts if c[1]]
            if bad_cast:
                ck.bad('L1', target, f'{cname}.mv casts its result back to the dtype of the input ({bad_cast[0][2]}): with an integer input and non-integer '
                       'parameters the product is truncated, so op(a x + b y) != a op(x) + b op(y)', instance=inst)
            elif s.unknowns:
                ck.incomplete('L1', target, f'construct outside the analysed language: {s.unknowns[0][1]}', instance=inst)
            else:
                ck.ok('L1', target, f'mv is linear in its input for all inputs: kind {v.k}', instance=inst)
        elif isinstance(v, NonLin):
            ck.bad('L1', target, f'{cname}.mv is not a linear function of its input: {v.why}', instance=inst)
        elif isinstance(v, Unknown):
            ck.incomplete('L1', target, f'cannot classify the result: {v.why}', instance=inst)
        else:
            ck.bad('L1', target, f'{cname}.mv returns {describe(v)}, not an array (pytree) that is linear in the input', instance=inst)

    # ------------------------------------------------------------------ L2
    base = table.get(OPERATOR_BASE)
    generic = table.resolve(base, 'as_matrix')
    if generic is None or not isinstance(generic.node, ast.FunctionDef):
        raise AnalysisError('anchor vanished: AbstractLinearOperator.as_matrix')
    overrides = [c for c in table.operators() if isinstance(c.own.get('as_matrix'), ast.FunctionDef)]
    ck.floor('L2', len(overrides), 10, 'as_matrix overrides')
    for cls in overrides:
        fn = cls.own['as_matrix']
        schema = SCHEMAS.get(cls.name)
        if schema is None:
            if not _lazy_dense_by_evaluation(ctx, ck, cls, fn, generic.node):
                ck.incomplete('L2', fn, f'{cls.name}.as_matrix matches no dense-form schema of the table', instance=cls.name)
            continue
        ok, why = schema(world, table, cls, fn)
        if ok is None:
            ck.incomplete('L2', fn, f'{cls.name}.as_matrix: {why}', instance=cls.name)
            continue
        ck.expect('L2', ok, fn, why, f'{cls.name}.as_matrix does not have the dense form of its class: {why}', instance=cls.name)

    # L2b: a dense form written with the class's own placement helpers is faithful only if mv places the values with
    # the very same helpers, called on the same object
    structural = {'in_structure', 'out_structure', 'in_size', 'out_size', 'as_matrix', 'in_promoted_dtype', 'out_promoted_dtype'}
    nshared = 0
    from ..opkinds import concrete_mv_classes

    for cls in concrete_mv_classes(table):
        am = table.resolve(cls, 'as_matrix')
        mv = table.resolve(cls, 'mv')
        if am is None or mv is None or not isinstance(am.node, ast.FunctionDef) or not isinstance(mv.node, ast.FunctionDef) or am.node is generic.node:
            continue
        me = am.node.args.args[0].arg
        # helpers of the object that the dense form calls with arguments - except those that are handed a dense matrix
        # (the result of another as_matrix()): they transform matrices, they do not place the operator's coefficients
        called = {n.func.attr for n in ast.walk(am.node) if isinstance(n, ast.Call) and isinstance(n.func, ast.Attribute) and isinstance(n.func.value, ast.Name)
                  and n.func.value.id == me and (n.args or n.keywords)
                  and not any(isinstance(x, ast.Call) and isinstance(x.func, ast.Attribute) and x.func.attr == 'as_matrix' for a in list(n.args) + [k.value for k in n.keywords] for x in ast.walk(a))}
        used = {k: v for k, v in _self_closure(table, cls, am.node, depth=0).items() if k not in structural and k in called}
        if not used:
            continue
        reach = _self_closure(table, cls, mv.node)
        missing = sorted(k for k, v in used.items() if reach.get(k) is not v)
        nshared += 1
        from .. import report as _report

        if missing and (qualname(am.node) in _report.RESTRUCTURED or cls.qual in _report.RESTRUCTURED):
            ck.incomplete('L2', mv.node, f'{cls.name}.as_matrix builds its dense form with self.{missing[0]}(), which mv does not use; as_matrix was restructured ({_report.RESTRUCTURED.get(qualname(am.node)) or _report.RESTRUCTURED.get(cls.qual)}): '
                          'whether both place the coefficients the same way is not decided structurally', instance=f'{cls.name} shared helpers')
            continue
        ck.expect('L2', not missing, mv.node, f'{cls.name}.mv places its values through {sorted(used)} of the same object, the helpers its dense form uses',
                  f'{cls.name}.as_matrix builds the dense form with self.{missing[0] if missing else ""}(), but {cls.name}.mv does not go through that helper on the same object: '
                  'the dense form and the matrix-free action take their coefficients from different places', instance=f'{cls.name} shared helpers')
    ck.floor('L2', nshared, 2, 'classes whose dense form shares helpers with mv')

    # ------------------------------------------------------------------ L3
    _generic_builder(ck, generic.node)

    # ------------------------------------------------------------------ L4 the Toeplitz operator has one dense form and several matrix-free
    # methods: as_matrix() is the matrix of mv only if the dense builder is the band matrix and every windowed kernel reads
    # and writes inside its buffers and returns samples it computed (shared with C09.Z9-Z12)
    from . import c09

    sub = type(ck)(ck.pid)
    c09.run(ctx, sub)
    for o in sub.obs:
        if o.rule.split('.')[-1] in ('Z9', 'Z10', 'Z11', 'Z12'):
            o.rule = f'{ck.pid}.L4'
            ck.obs.append(o)
    ck.floor('L4', sum(1 for o in ck.obs if o.rule.endswith('L4')), 8, 'Toeplitz dense builder and kernel obligations')


def _lazy_dense_by_evaluation(ctx, ck, owner, fn, generic_fn) -> bool:
    """A dense form written once for a family of lazy operators (a template with per-class hooks or class constants): it is
    evaluated per concrete class with a symbolic operand matrix M, and must come out as inv(M) for the lazy inverses, M.T for
    the lazy transposes (either for the orthogonal ones), or the generic column-by-column form.  Returns False when the class
    is not of that family."""
    from ..axinterp import Env, Func, Interp, Obj, Opaque, Raised, Sym, Undecided, UNK

    world, table = ctx.world, ctx.table
    inv_base = table.find(f'{CORE}.AbstractLazyInverseOperator')
    tr_base = table.find(f'{CORE}.TransposeOperator')
    if inv_base is None or tr_base is None:
        return False
    family = [k for k in table.operators() if (table.is_subclass(k, inv_base) or table.is_subclass(k, tr_base))
              and (r := table.resolve(k, 'as_matrix')) is not None and r.node is fn]
    if not family:
        return False
    for k in family:
        it = Interp(world, table, budget=50_000)
        it.symbolic = True
        it.summaries[id(generic_fn)] = lambda args, kwargs: Sym('generic_dense_form')
        me = Obj(k, {'operator': Opaque('operand')})
        M = Sym('call', (Sym('.as_matrix', (Opaque('operand'),)),))
        try:
            res = it.call_function(Func(fn, Env(module_of(fn)), me, owner), [], {})
        except (Raised, Undecided) as exc:
            ck.incomplete('L2', fn, f'{k.name}.as_matrix (written in {owner.name}) could not be followed: {exc}', instance=k.name)
            continue
        is_inv = table.is_subclass(k, inv_base)
        is_tr = table.is_subclass(k, tr_base)
        accepted = [Sym('generic_dense_form')]
        if is_inv:
            accepted += [Sym(p, (M,)) for p in ('jnp.linalg.inv', 'jax.numpy.linalg.inv', 'numpy.linalg.inv', 'jax.scipy.linalg.inv')]
        if is_tr:
            accepted += [Sym('.T', (M,)), Sym('.mT', (M,)), Sym('jnp.transpose', (M,)), Sym('call', (Sym('.transpose', (M,)),))]
        text = repr(res)
        if res in accepted:
            ck.ok('L2', fn, f'{k.name}.as_matrix (written in {owner.name}) evaluates to {text} for the operand matrix M', instance=k.name)
        elif res is UNK or not isinstance(res, Sym):
            ck.incomplete('L2', fn, f'{k.name}.as_matrix (written in {owner.name}) evaluates to something the evaluator cannot follow ({text[:80]})', instance=k.name)
        elif 'conj' in text or text.endswith('.H'):
            ck.bad('L2', fn, f'{k.name}.as_matrix evaluates to {text}: the conjugate transpose (adjoint) of the operand matrix, but mv of the lazy transpose is the plain transpose - they differ for complex coefficients', instance=k.name)
        else:
            ck.bad('L2', fn, f'{k.name}.as_matrix evaluates to {text}, which is neither ' + (' nor '.join((['the inverse'] if is_inv else []) + (['the transpose'] if is_tr else []))) + ' of the operand matrix nor the generic dense form', instance=k.name)
    return True


def _self_closure(table, cls, fn: ast.FunctionDef, depth: int = 6) -> dict:
    """Methods and properties of `cls` reached from fn through accesses on its own first parameter (name -> definition)."""
    out: dict = {}
    todo = [(fn, depth)]
    seen = set()
    while todo:
        f, d = todo.pop()
        if id(f) in seen or not f.args.args:
            continue
        seen.add(id(f))
        me = f.args.args[0].arg
        for n in ast.walk(f):
            if isinstance(n, ast.Attribute) and isinstance(n.value, ast.Name) and n.value.id == me and isinstance(n.ctx, ast.Load):
                r = table.resolve(cls, n.attr)
                if r is not None and isinstance(r.node, ast.FunctionDef):
                    out.setdefault(n.attr, r.node)
                    if d > 0:
                        todo.append((r.node, d - 1))
    return out


# ---------------------------------------------------------------------- schemas
def _single_return(fn: ast.FunctionDef):
    rets = [p for p in function_paths(fn) if p.exit == 'return']
    if len(rets) != 1:
        return None, None
    env = path_env(rets[0])
    return term(rets[0].node.value, env), env


def _self(fn):
    return ('var', fn.args.args[0].arg)


def _is_jnp(t, name):
    return t in (('attr', ('var', 'jnp'), name), ('attr', ('attr', ('var', 'jax'), 'numpy'), name))


def _per_leaf_matrices(t, S, leaves_attr):
    """[op.as_matrix() for op in self.<leaves_attr>] (list or generator)."""
    if t[0] == 'star':
        t = t[1]
    if t[0] != 'comp' or len(t[2]) != 1:
        return False
    tgt, it, ifs = t[2][0]
    return it == ('attr', S, leaves_attr) and not ifs and t[1] == ('call', ('attr', tgt, 'as_matrix'), (), ())


def s_addition(world, table, cls, fn):
    t, _ = _single_return(fn)
    S = _self(fn)
    if t and t[0] == 'call' and t[1] in (('attr', ('var', 'functools'), 'reduce'), ('var', 'reduce')) and len(t[2]) == 2:
        f, seq = t[2]
        if _is_jnp(f, 'add') or f == ('attr', ('var', 'operator'), 'add'):
            if _per_leaf_matrices(seq, S, 'operand_leaves'):
                return True, 'sum (add-reduction) of operand.as_matrix() over operand_leaves, the leaves mv sums over'
    if t and t[0] == 'call' and t[1] == ('var', 'sum') and t[2] and _per_leaf_matrices(t[2][0], S, 'operand_leaves'):
        return True, 'sum of operand.as_matrix() over operand_leaves'
    return False, f'expected the sum of the operand matrices over operand_leaves, found {show(t)}'


def _identity_call(t, S, fn_names=('identity', 'eye')):
    return t is not None and t[0] == 'call' and any(_is_jnp(t[1], n) for n in fn_names) and len(t[2]) >= 1 and t[2][0] in (('call', ('attr', S, 'in_size'), (), ()), ('call', ('attr', S, 'out_size'), (), ()))


def s_identity(world, table, cls, fn):
    t, _ = _single_return(fn)
    if _identity_call(t, _self(fn)):
        return True, 'identity matrix of in_size'
    return False, f'expected jnp.identity(self.in_size()), found {show(t)}'


def s_homothety(world, table, cls, fn):
    t, _ = _single_return(fn)
    S = _self(fn)
    if t and t[0] == 'binop' and t[1] == '*':
        a, b = t[2], t[3]
        if (a == ('attr', S, 'value') and _identity_call(b, S)) or (b == ('attr', S, 'value') and _identity_call(a, S)):
            return True, 'value * identity of in_size'
    return False, f'expected self.value * identity(in_size), found {show(t)}'


def s_lazy_inverse(world, table, cls, fn):
    """General matrix inverse of the operand's dense form: inv(M), or solve(M, identity) without structure assumption."""
    t, _ = _single_return(fn)
    S = _self(fn)
    dense = ('call', ('attr', ('attr', S, 'operator'), 'as_matrix'), (), ())
    linalg = (('attr', ('var', 'jnp'), 'linalg'), ('var', 'jsl'), ('attr', ('attr', ('var', 'jax'), 'scipy'), 'linalg'), ('attr', ('var', 'np'), 'linalg'))
    if t and t[0] == 'call' and t[1][0] == 'attr' and t[1][1] in linalg:
        name, args, kws = t[1][2], t[2], dict(t[3])
        if name == 'inv' and args == (dense,) and not kws:
            return True, 'matrix inverse of the operand matrix'
        if name == 'solve' and len(args) == 2 and args[0] == dense:
            rhs = args[1]
            is_eye = rhs[0] == 'call' and rhs[1][0] == 'attr' and rhs[1][2] in ('eye', 'identity')
            assumed = kws.get('assume_a', ('const', "'gen'"))
            if not is_eye:
                return False, f'solve against {show(rhs)}, which is not an identity matrix'
            if assumed not in (('const', "'gen'"), ('const', "'general'")) or set(kws) - {'assume_a'}:
                return False, (f'the operand matrix is inverted under the structure assumption {show(assumed)} {sorted(set(kws) - {"assume_a"})}: '
                               'operands of lazy inverses are only required to be invertible')
            return True, 'general solve of the operand matrix against the identity'
    return False, f'expected the general inverse of self.operator.as_matrix(), found {show(t)}'


def s_lazy_transpose(world, table, cls, fn):
    """Plain (unconjugated) transpose of the operand's dense form: mv of the lazy transpose is jax.linear_transpose, which
    does not conjugate."""
    t, _ = _single_return(fn)
    S = _self(fn)
    dense = ('call', ('attr', ('attr', S, 'operator'), 'as_matrix'), (), ())
    if t in (('T', dense), ('attr', dense, 'T'), ('attr', dense, 'mT'), ('call', ('attr', dense, 'transpose'), (), ())):
        return True, 'transpose of the operand matrix'
    if t and t[0] == 'call' and (_is_jnp(t[1], 'transpose') or _is_jnp(t[1], 'matrix_transpose')) and t[2] == (dense,) and not t[3]:
        return True, 'transpose of the operand matrix'
    if t and t[0] == 'call' and _is_jnp(t[1], 'swapaxes') and len(t[2]) == 3 and t[2][0] == dense and {show(t[2][1]), show(t[2][2])} in ({'0', '1'}, {'-1', '-2'}, {'neg(1)', 'neg(2)'}):
        return True, 'transpose of the operand matrix'
    text = show(t)
    if 'conj' in text or text.endswith('.H'):
        return False, f'{text} is the conjugate transpose (adjoint) of the operand matrix, but mv of the lazy transpose is the plain transpose: they differ for complex coefficients'
    return False, f'expected the transpose of self.operator.as_matrix(), found {text}'


def _stack_schema(func_name, leaves_attr='block_leaves', star=False):
    def schema(world, table, cls, fn):
        t, _ = _single_return(fn)
        S = _self(fn)
        if t and t[0] == 'call' and len(t[2]) == 1:
            f = t[1]
            good_f = _is_jnp(f, func_name) or f in (('attr', ('var', 'jsl'), func_name), ('attr', ('attr', ('attr', ('var', 'jax'), 'scipy'), 'linalg'), func_name))
            arg = t[2][0]
            if good_f and ((star and arg[0] == 'star') or (not star and arg[0] != 'star')) and _per_leaf_matrices(arg, S, leaves_attr):
                kws = dict(t[3])
                extra = sorted(set(kws) - {'dtype'})
                if extra:
                    return False, f'{func_name} is called with {extra}: not part of the dense form of the class'
                if 'dtype' in kws and kws['dtype'] != ('attr', S, 'out_promoted_dtype'):
                    return False, (f'the stacked matrix is converted to {show(kws["dtype"])}: the entries of the dense form have the dtype of what the blocks return '
                                   '(out_promoted_dtype); any other dtype narrows blocks that widen their input (float32 blocks on float16 data, complex blocks on real data)')
                return True, f'{func_name} of the block matrices over {leaves_attr} (the leaf order mv and the structures use)'
        return False, f'expected {func_name} over op.as_matrix() for op in self.{leaves_attr}, found {show(t)}'

    return schema


def s_reshape(world, table, cls, fn):
    t, _ = _single_return(fn)
    if _identity_call(t, _self(fn)):
        return True, 'identity matrix: a reshape/ravel keeps the row-major order of the elements'
    return False, f'expected jnp.eye(self.in_size()), found {show(t)}'


def s_diagonal(world, table, cls, fn):
    t, env = _single_return(fn)
    S = _self(fn)
    # matrix = jnp.diag(jnp.concatenate(diagonals, ...)); diagonals = [broadcast_to(self._reshape_diagonal(self._normalize_axes(leaf.shape), leaf.ndim), leaf.shape).ravel() for leaf in tree.leaves(self.in_structure())]
    if not (t and t[0] == 'call' and _is_jnp(t[1], 'diag') and len(t[2]) == 1):
        return False, f'expected jnp.diag(concatenate(per-leaf values)), found {show(t)}'
    inner = t[2][0]
    if not (inner[0] == 'call' and _is_jnp(inner[1], 'concatenate') and inner[2]):
        return False, f'expected a concatenation of per-leaf diagonal values, found {show(inner)}'
    comp = inner[2][0]
    if comp[0] != 'comp' or len(comp[2]) != 1:
        return False, f'expected a per-leaf comprehension, found {show(comp)}'
    tgt, it, ifs = comp[2][0]
    leaves_ok = it == ('call', ('attr', ('attr', ('var', 'jax'), 'tree'), 'leaves'), (('IN', S),), ())
    elt = comp[1]
    want = ('call', ('attr', ('call', ('attr', ('var', 'jnp'), 'broadcast_to'), (
        ('call', ('attr', S, '_reshape_diagonal'), (('call', ('attr', S, '_normalize_axes'), (('attr', tgt, 'shape'),), ()), ('attr', tgt, 'ndim')), ()),
        ('attr', tgt, 'shape')), ()), 'ravel'), (), ())
    if leaves_ok and elt == want:
        return True, 'diag of the concatenated per-leaf values, each placed with the helpers mv uses on *that leaf* (axes normalised per leaf, broadcast to the leaf shape, row-major)'
    return False, ('the per-leaf values are not computed from each leaf\'s own shape with the helpers mv uses '
                   f'(_normalize_axes(leaf.shape), _reshape_diagonal(..., leaf.ndim), broadcast_to(..., leaf.shape).ravel()): leaves ok={leaves_ok}, element {show(elt)[:160]}')


def s_toeplitz(world, table, cls, fn):
    # the override must build its blocks with the same dense builder as the `dense` method
    dense_apply = cls.own.get('_apply_dense')
    builder = 'furax.operators.toeplitz.dense_symmetric_band_toeplitz'

    def calls_builder(f):
        return any(isinstance(n, ast.Call) and world.qualify(module_of(n), n.func) == builder for n in ast.walk(f))

    if not isinstance(dense_apply, ast.FunctionDef):
        return False, 'the dense kernel _apply_dense vanished'
    if not (calls_builder(fn) and calls_builder(dense_apply)):
        return False, 'as_matrix and the dense method do not share dense_symmetric_band_toeplitz'
    src = ast.unparse(fn)
    from ..loader import string_constants

    sig_ok = any(v.replace(' ', '') == '(n),(k)->(n,n)' for v in string_constants(fn))
    blockdiag = any(isinstance(n, ast.Call) and world.qualify(module_of(n), n.func) == 'jax.scipy.linalg.block_diag' for n in ast.walk(fn))
    if sig_ok and blockdiag:
        return True, 'per-row dense builder shared with the dense method, vectorised (n),(k)->(n,n), batch rows assembled with block_diag'
    # the builder is shared, but the batch is handled in a way this schema does not know: a written form, not a refutation
    return None, f'the dense builder is shared with the dense method, but the batch rows are not assembled in the recognised way (vectorize signature ok={sig_ok}, block_diag over the batch ok={blockdiag}): not decided'


SCHEMAS = {
    'AdditionOperator': s_addition,
    'IdentityOperator': s_identity,
    'HomothetyOperator': s_homothety,
    'AbstractLazyInverseOperator': s_lazy_inverse,
    'TransposeOperator': s_lazy_transpose,
    'DiagonalOperator': s_diagonal,
    'BlockRowOperator': _stack_schema('hstack'),
    'BlockColumnOperator': _stack_schema('vstack'),
    'BlockDiagonalOperator': _stack_schema('block_diag', star=True),
    'AbstractRavelOrReshapeOperator': s_reshape,
    'SymmetricBandToeplitzOperator': s_toeplitz,
}


# ---------------------------------------------------------------------- L3
def _generic_builder(ck, fn: ast.FunctionDef) -> None:
    """Clause-by-clause check of the generic column-by-column builder; local names are discovered by role."""
    from ..paths import Path

    S = ('var', fn.args.args[0].arg)
    loop = next((st for st in fn.body if isinstance(st, ast.For)), None)
    if loop is None:
        ck.bad('L3', fn, 'the generic as_matrix no longer iterates over the input leaves', instance='leaf loop')
        return
    pre = [('stmt', st) for st in fn.body[: fn.body.index(loop)] if isinstance(st, (ast.Assign, ast.AnnAssign))]
    env = path_env(Path(pre))
    zero_in = ('call', ('var', 'zeros_like'), (('IN', S),), ())
    tree_ns = ('attr', ('var', 'jax'), 'tree')
    # (leaves, treedef) = jax.tree.flatten(z) is canonically (jax.tree.leaves(z), jax.tree.structure(z))
    leaves_t = ('call', ('attr', tree_ns, 'leaves'), (zero_in,), ())
    treedef_t = ('call', ('attr', tree_ns, 'structure'), (zero_in,), ())
    leaves_name = next((k for k, v in env.items() if v == leaves_t), None)
    treedef_name = next((k for k, v in env.items() if v == treedef_t), None)
    ck.expect('L3', leaves_name is not None and treedef_name is not None, fn,
              'input leaves and treedef come from jax.tree.flatten(zeros_like(self.in_structure())): columns follow pytree leaf order',
              'the reference input is not the flattened zero pytree of in_structure()', instance='input leaves')
    shape_t = ('tuple', ('call', ('attr', S, 'out_size'), (), ()), ('call', ('attr', S, 'in_size'), (), ()))
    matrix_name = next((k for k, v in env.items() if isinstance(v, tuple) and v[0] == 'call' and v[2] and v[2][0] == shape_t), None)
    ck.expect('L3', matrix_name is not None, fn, 'matrix has shape (out_size, in_size)', 'no buffer of shape (out_size(), in_size()) is allocated', instance='matrix shape')
    it = term(loop.iter, env)
    names = [n.id for n in loop.target.elts] if isinstance(loop.target, ast.Tuple) and all(isinstance(n, ast.Name) for n in loop.target.elts) else []
    ck.expect('L3', it == ('call', ('var', 'enumerate'), (leaves_t,), ()) and len(names) == 2, fn, 'one pass per input leaf, in order', f'the loop iterates {show(it)}', instance='leaf loop')
    body_fn = next((st for st in loop.body if isinstance(st, ast.FunctionDef)), None)
    fori = next((st for st in loop.body if isinstance(st, ast.Assign) and isinstance(st.value, ast.Call) and ast.unparse(st.value.func).endswith('fori_loop')), None)
    if body_fn is None or fori is None or len(names) != 2 or leaves_name is None or treedef_name is None:
        ck.bad('L3', fn, 'the per-element loop body / fori_loop of the generic as_matrix vanished', instance='element loop')
        return
    ileaf, leaf = ('var', names[0]), ('var', names[1])
    fa = [term(a) for a in fori.value.args]
    ck.expect('L3', len(fa) == 4 and fa[0] == ('const', '0') and fa[1] == ('attr', leaf, 'size') and fa[2] == ('var', body_fn.name), fn,
              'one column per element of the leaf: fori_loop(0, leaf.size, body, ...)', f'element loop is {[show(a) for a in fa]}', instance='element loop')
    if len(body_fn.args.args) != 2:
        ck.bad('L3', body_fn, 'the loop body no longer takes (index, carry)', instance='element loop body')
        return
    index, carry = ('var', body_fn.args.args[0].arg), ('var', body_fn.args.args[1].arg)
    rets = [st for st in body_fn.body if isinstance(st, ast.Return)]
    if len(rets) != 1:
        ck.bad('L3', body_fn, 'the loop body no longer has a single return', instance='element loop body')
        return
    benv = path_env(Path([('stmt', st) for st in body_fn.body if isinstance(st, (ast.Assign, ast.AugAssign))]), track_items=True)
    rt = term(rets[0].value, benv)
    # `leaves[ileaf]` is the loop element `leaf` (the loop enumerates that very list)
    from ..terms import subst as _subst

    rt = _subst(rt, {('sub', ('var', leaves_name), ileaf): leaf, ('sub', leaves_t, ileaf): leaf})
    m0, j0 = ('item', carry, 0), ('item', carry, 1)
    unit = ('call', ('attr', ('call', ('attr', ('sub', ('attr', ('call', ('attr', leaf, 'ravel'), (), ()), 'at'), index), 'set'), (('const', '1'),), ()), 'reshape'), (('attr', leaf, 'shape'),), ())
    zeros = ('setitem', ('call', ('attr', ('var', leaves_name), 'copy'), (), ()), ileaf, unit)
    in_pytree = ('call', ('attr', ('attr', ('var', 'jax'), 'tree'), 'unflatten'), (('var', treedef_name), zeros), ())
    out_pytree = ('apply', S, in_pytree)
    # two equivalent ways to number the columns: (A) a counter carried through the element loop next to the matrix and
    # advanced by one per element; (B) the matrix alone is carried and the column is <columns of the previous leaves> + index,
    # the offset being a Python integer advanced by leaf.size after each leaf
    scheme_b = None
    if not (rt[0] == 'tuple' and len(rt) == 3):
        scheme_b = _offset_scheme(fn, loop, fori, leaf, index)
    if scheme_b is not None:
        m0, j0 = carry, scheme_b
        col, cnt = rt, ('binop', '+', j0, ('const', '1'))
        ok_shape = True
    else:
        ok_shape = rt[0] == 'tuple' and len(rt) == 3
        col = rt[1] if ok_shape else None
        cnt = rt[2] if ok_shape else None
    # column write: M.at[:, j].set(concatenate([l.ravel() for l in tree.leaves(out)]))
    good_unit = good_col = good_rows = good_write = False
    if col is not None and col[0] == 'call' and col[1][0] == 'attr' and col[1][2] == 'set' and col[1][1] == ('sub', ('attr', m0, 'at'), ('tuple', ('slice', ('none',), ('none',), ('none',)), j0)) and len(col[2]) == 1:
        good_write = True
        val = col[2][0]
        if val[0] == 'call' and val[1] == ('attr', ('var', 'jnp'), 'concatenate') and val[2] and val[2][0][0] == 'comp':
            c = val[2][0]
            tgt, itr, ifs = c[2][0]
            good_rows = c[1] == ('call', ('attr', tgt, 'ravel'), (), ()) and itr[0] == 'call' and itr[1] == ('attr', ('attr', ('var', 'jax'), 'tree'), 'leaves') and not ifs
            if good_rows:
                out = itr[2][0]
                good_col = out == out_pytree
                good_unit = good_col or (out[0] == 'apply' and out[1] == S and out[2][0] == 'call' and out[2][2][1:] and out[2][2][1][0] == 'setitem' and out[2][2][1][3] == unit)
                if not good_col and out[0] == 'apply' and out[1] == S:
                    inner = out[2]
                    good_col = inner[0] == 'call' and inner[1] == in_pytree[1] and inner[2][0] == ('var', treedef_name)
    ck.expect('L3', good_unit, body_fn, 'the basis vector has a single 1 at flat (row-major) position `index` of leaf `ileaf`',
              'the basis pytree is not "zeros with one entry set to 1 at the ravelled position index of the current leaf"', instance='unit entry')
    ck.expect('L3', good_col, body_fn, 'the column is self.mv(basis pytree rebuilt with the input treedef)', 'the column is not self.mv applied to the basis pytree', instance='column = mv(basis)')
    ck.expect('L3', good_rows, body_fn, 'rows are the ravelled output leaves in jax.tree.leaves order', 'rows are not the concatenated ravelled output leaves', instance='row order')
    ck.expect('L3', good_write and cnt == ('binop', '+', j0, ('const', '1')), body_fn, 'column j is written once and j advances by one per input element',
              f'column write / counter update is {show(col)[:80]} / {show(cnt)}', instance='column write')
    init_carry = fa[3] if len(fa) == 4 else None
    if scheme_b is not None:
        ck.expect('L3', init_carry == ('var', matrix_name), fn, 'the carry is the matrix; the column index is the running leaf offset plus the element index',
                  f'the carry is {show(init_carry)}', instance='carry', nontrivial=False)
    else:
        ck.expect('L3', init_carry is not None and init_carry[0] == 'tuple' and len(init_carry) == 3 and init_carry[1] == ('var', matrix_name), fn, 'the carry is (matrix, column counter)',
                  f'the carry is {show(init_carry)}', instance='carry', nontrivial=False)


def _offset_scheme(fn: ast.FunctionDef, loop: ast.For, fori: ast.AST, leaf, index):
    """The column term `offset + index` if `offset` is initialised to 0 before the leaf loop, advanced by leaf.size once
    per leaf after the element loop, and written nowhere else; else None."""
    cands = []
    for st in fn.body[: fn.body.index(loop)]:
        if isinstance(st, ast.Assign) and len(st.targets) == 1 and isinstance(st.targets[0], ast.Name) and term(st.value) == ('const', '0'):
            cands.append(st.targets[0].id)
    for name in cands:
        stores = [n for n in ast.walk(fn) if isinstance(n, ast.Name) and n.id == name and isinstance(n.ctx, ast.Store)]
        after = loop.body[loop.body.index(fori) + 1:] if fori in loop.body else []
        bumps = [st for st in after if isinstance(st, ast.AugAssign) and isinstance(st.target, ast.Name) and st.target.id == name and isinstance(st.op, ast.Add)
                 and term(st.value) == ('attr', leaf, 'size')]
        bumps += [st for st in after if isinstance(st, ast.Assign) and isinstance(st.targets[0], ast.Name) and st.targets[0].id == name
                  and term(st.value) in (('binop', '+', ('var', name), ('attr', leaf, 'size')), ('binop', '+', ('attr', leaf, 'size'), ('var', name)))]
        if len(bumps) == 1 and len(stores) == 2:
            return ('binop', '+', ('var', name), index)
    return None


def controls(world: World) -> list[Control]:
    return [
        Control('added-offset', lambda w: edit_def(w, CORE, 'HomothetyOperator.mv', lambda fn: replace_expr(fn, 'self.value * leaf', 'self.value * leaf + 1')), 'C04.L1'),
        Control('squared-input', lambda w: edit_def(w, 'furax._base.diagonal', 'BroadcastDiagonalOperator.mv', lambda fn: replace_expr(fn, 'reshaped_diagonal_leaf * reshaped_input_leaf', 'reshaped_diagonal_leaf * reshaped_input_leaf * reshaped_input_leaf')), 'C04.L1'),
        Control('swapped-stacking', lambda w: edit_def(w, BLOCKS, 'BlockRowOperator.as_matrix', lambda fn: replace_expr(fn, 'jnp.hstack', 'jnp.vstack')), 'C04.L2'),
        Control('hoisted-axes', lambda w: edit_def(w, 'furax._base.diagonal', 'DiagonalOperator.as_matrix', lambda fn: replace_expr(fn, 'self._normalize_axes(leaf.shape)', 'self._normalize_axes(jax.tree.leaves(self.in_structure())[0].shape)')), 'C04.L2'),
    ]

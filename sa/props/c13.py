"""C13 - axis operators are exact relabellings: Perm kind, validation, transposes, no-op and pair rules."""

from __future__ import annotations

import ast

from ..kinds import Lin, describe
from ..loader import AnalysisError, World
from ..mutate import edit_def, remove_stmt, replace_expr
from ..opkinds import all_mv
from ..paths import exception_name, function_paths
from ..rulesem import rule_info
from ..run import Control
from ..terms import contains, path_env, show, term
from . import c01, c03, c06
from .c03 import _ret

LEVEL = 'other'
AXES = 'furax._base.axes'
RULE_TEXT = (
    'the four axis mv methods, the constructor guards of ravel/reshape, the transposes/inverse and the two pair rules are enumerated '
    'clause by clause; an obligation is one (construct, clause) item; non-trivial = discharged by kind inference, guard extraction or '
    'a term derivation'
)
EXPLANATION = (
    'Each axis operator only relabels elements: its mv is built from moveaxis / reshape of the leaf alone (Perm kind), so its matrix is a '
    'permutation matrix and its transpose is its inverse; the argument order handed to jnp.moveaxis / reshape is the stored one; negative '
    'ravel axes are normalised with the rank of each leaf; illegal arguments (first axis after the last one - same sign and, per leaf, '
    'mixed signs; target shape of a different size; sizes below -1; a second -1) are refused before any field is stored; the transpose '
    'of move-axis swaps source and destination on the output structure, the reshape dual reshapes every leaf back to the operand\'s input '
    'shape; a ravel/reshape is reduced to the identity only if its output structure equals its input structure; inverse pairs are deleted '
    'only under crosswise parameter equality / operand identity. Agreement with numpy for every sign/rank combination is value-level '
    'and not decided.'
)


def _moveaxis_placement(ctx, ck, move, fn) -> None:
    import itertools

    from ..axinterp import AxArr, Interp, Raised, Undecided, moveaxis

    world, table = ctx.world, ctx.table
    sizes = (3, 5, 7, 11)
    wrong: list[str] = []
    undecided: list[str] = []
    n = 0
    for m in (1, 2, 3, 4):
        leaf = AxArr(tuple((frozenset({f'x{j}'}), sizes[j]) for j in range(m)))
        raw = list(range(-m, m))
        for k in range(1, min(m, 3 if m < 4 else 2) + 1):
            tuples = [t for t in itertools.permutations(raw, k) if len({a % m for a in t}) == k]
            for src in tuples:
                for dst in tuples:
                    forms = [(src, dst)] + ([(src[0], dst[0]), (list(src), list(dst))] if k == 1 else [])
                    for s_, d_ in forms:
                        n += 1
                        want = moveaxis(leaf, s_, d_)
                        it = Interp(world, table, budget=20_000)
                        try:
                            op = it.construct(move, s_, d_, in_structure=leaf)
                            got = it.call_method(op, 'mv', leaf)
                        except Raised as exc:
                            wrong.append(f'source={s_!r}, destination={d_!r} on a leaf of rank {m}: raises {exc.name}')
                            continue
                        except Undecided as exc:
                            undecided.append(f'source={s_!r}, destination={d_!r}: {exc}')
                            continue
                        if not isinstance(got, AxArr):
                            undecided.append(f'source={s_!r}, destination={d_!r}: the result is not an array the interpreter can follow ({it.degraded[:1]})')
                        elif got.axes != want.axes:
                            wrong.append(f'source={s_!r}, destination={d_!r} on a leaf of rank {m}: axes end up as {got!r}, numpy.moveaxis gives {want!r}')
            if len(undecided) > 3:
                break
    target = fn or move.node
    if undecided:
        ck.incomplete('A1', target, f'MoveAxisOperator.mv could not be followed for {len(undecided)} of {n} (source, destination) requests, e.g. {undecided[0]}', instance='moveaxis argument order')
    else:
        ck.expect('A1', not wrong, target, f'for all {n} order types of (source, destination) on leaves of rank 1-4 the axes end up where numpy.moveaxis puts them',
                  f'MoveAxisOperator does not move the axes like numpy.moveaxis for {len(wrong)} of {n} requests, e.g. {wrong[0] if wrong else ""}', instance='moveaxis argument order', semantic=True)


def _moveaxis_transpose(ctx, ck, move, fn, why_structural) -> None:
    """A3 when transpose() is not literally MoveAxisOperator(destination, source, in_structure=self.out_structure()): decided by
    evaluation for all order types of (source, destination) on leaves of rank 1-3 - the transpose is a MoveAxisOperator built
    on the output structure of the operator, and applying it after the operator puts every axis back."""
    import itertools

    from ..axinterp import AxArr, Interp, Obj, Raised, StructLeaf, Undecided, UNK, as_structure
    from ..classes import CORE

    world, table = ctx.world, ctx.table
    base = table.get(f'{CORE}.AbstractLinearOperator')
    out_fn = base.own.get('out_structure')
    sizes = (3, 5, 7)
    wrong: list[str] = []
    undecided: list[str] = []
    n = 0
    for m in (1, 2, 3):
        leaf = StructLeaf(tuple((frozenset({f'x{j}'}), sizes[j]) for j in range(m)))
        raw = list(range(-m, m))
        for k in range(1, m + 1):
            tuples = [t for t in itertools.permutations(raw, k) if len({a % m for a in t}) == k]
            for src in tuples:
                for dst in tuples:
                    n += 1
                    it = Interp(world, table, budget=30_000)
                    it.constructible = {move.qual}
                    if isinstance(out_fn, ast.FunctionDef):
                        it.summaries[id(out_fn)] = lambda args, kwargs, it=it: as_structure(it.call_method(args[0], 'mv', it.call_method(args[0], 'in_structure')))
                    what = f'MoveAxisOperator({src}, {dst}) on a leaf of rank {m}'
                    try:
                        op = it.construct(move, src, dst, in_structure=leaf)
                        moved = it.call_method(op, 'mv', leaf)
                        tr = it.call_method(op, 'transpose')
                        if not isinstance(tr, Obj) or not isinstance(moved, AxArr):
                            raise Undecided('the transpose is not an operator the evaluator can follow')
                        tin = it.call_method(tr, 'in_structure')
                        back = it.call_method(tr, 'mv', moved)
                    except Raised as exc:
                        wrong.append(f'{what}: building or applying the transpose raises {exc.name}')
                        continue
                    except Undecided as exc:
                        undecided.append(f'{what}: {exc}')
                        continue
                    if it.degraded or not isinstance(back, AxArr) or not isinstance(tin, AxArr):
                        undecided.append(f'{what}: {(it.degraded or ["the result cannot be followed"])[0]}')
                        continue
                    if tin.shape != moved.shape:
                        wrong.append(f'{what}: the transpose expects {tin.shape} but the operator returns {moved.shape} (its structures are not swapped)')
                    elif back.axes != leaf.axes:
                        wrong.append(f'{what}: the transpose applied after the operator gives {back!r}, not the input {leaf!r}')
            if len(undecided) > 3:
                break
    target = fn or move.node
    if undecided:
        ck.incomplete('A3', target, f'MoveAxisOperator.transpose ({why_structural}) could not be followed for {len(undecided)} of {n} requests, e.g. {undecided[0]}', instance='moveaxis transpose')
    else:
        ck.expect('A3', not wrong, target, f'for all {n} order types of (source, destination) on leaves of rank 1-3 the transpose is built on the output structure and undoes the move',
                  f'{wrong[0] if wrong else ""} ({len(wrong)} of {n} requests)', instance='moveaxis transpose', semantic=True)


def _reshape_validation_by_evaluation(ctx, reshape):
    """(number of cases, problems) or None: ReshapeOperator(target, in_structure=tree) constructed (sa/axinterp.py) on pytrees of
    one to three leaves and targets with and without -1: ValueError exactly when some leaf cannot take the target shape."""
    import math

    from ..axinterp import Interp, Raised, StructLeaf, Undecided
    from ..classes import CORE

    world, table = ctx.world, ctx.table
    base = table.get(f'{CORE}.AbstractLinearOperator')
    out_fn = base.own.get('out_structure')

    def leaf(shape, tag):
        return StructLeaf(tuple((frozenset({f'{tag}{j}'}), n) for j, n in enumerate(shape)), 'float32')

    trees = [[(2, 3)], [(2, 3), (5,)], [(5,), (2, 3)], [(6,), (2, 3)], [(2, 3), (3, 2), (4,)], [(2, 3), (2, 3), (7,)]]
    targets = [(2, 3), (6,), (3, 2), (-1,), (3, -1), (5,), (-1, 4), (1, 6)]

    def fits(shape, target):
        size = math.prod(shape)
        if -1 in target:
            rest = math.prod(x for x in target if x != -1)
            return rest != 0 and size % rest == 0
        return math.prod(target) == size

    problems: list[str] = []
    n = 0
    for tree in trees:
        struct = [leaf(sh, f'l{i}_') for i, sh in enumerate(tree)]
        struct = struct[0] if len(struct) == 1 else struct
        for target in targets:
            n += 1
            it = Interp(world, table, budget=40_000)
            if isinstance(out_fn, ast.FunctionDef):
                it.summaries[id(out_fn)] = lambda args, kwargs: args[0].attrs.get('_in_structure')
            want_ok = all(fits(sh, target) for sh in tree)
            what = f'ReshapeOperator({target}) on leaves of shapes {tree}'
            try:
                it.construct(reshape, target, in_structure=struct)
                raised = None
            except Raised as exc:
                raised = exc.name
            except Undecided:
                return None
            if it.degraded:
                return None
            if want_ok and raised:
                problems.append(f'{what} is refused ({raised}) although every leaf can take that shape')
            if not want_ok and raised != 'ValueError':
                problems.append(f'{what} is ' + (f'refused with {raised} instead of ValueError' if raised else 'accepted although a leaf cannot take that shape (it only fails when applied)'))
    return n, problems


def _reshape_reduce_by_evaluation(ctx, reshape):
    """(number of cases, problems) or None when not decided: ReshapeOperator(target, in_structure=tree).reduce() evaluated
    (sa/axinterp.py) on the legal constructions of `_reshape_validation_by_evaluation`: the identity (on the input structure)
    exactly when the target is the shape every leaf already has."""
    import math

    from ..axinterp import Interp, Obj, Raised, StructLeaf, Undecided, UNK, as_structure
    from ..classes import CORE

    world, table = ctx.world, ctx.table
    base = table.get(f'{CORE}.AbstractLinearOperator')
    ident = table.by_name('IdentityOperator')
    out_fn = base.own.get('out_structure')
    if ident is None:
        return None

    def leaf(shape, tag):
        return StructLeaf(tuple((frozenset({f'{tag}{j}'}), n) for j, n in enumerate(shape)), 'float32')

    trees = [[(2, 3)], [(6,)], [(2, 3), (2, 3)], [(6,), (2, 3)], [(2, 3), (3, 2)], [(2, 3), (2, 3), (6,)], [(1, 6)]]
    targets = [(2, 3), (6,), (3, 2), (-1,), (2, -1), (-1, 3), (1, 6), (-1, 6)]

    def normal(shape, target):
        size = math.prod(shape)
        if -1 in target:
            rest = math.prod(x for x in target if x != -1)
            if rest == 0 or size % rest:
                return None
            return tuple(size // rest if x == -1 else x for x in target)
        return tuple(target) if math.prod(target) == size else None

    problems: list[str] = []
    n = 0
    for tree in trees:
        struct = [leaf(sh, f'l{i}_') for i, sh in enumerate(tree)]
        struct = struct[0] if len(struct) == 1 else struct
        for target in targets:
            if any(normal(sh, target) is None for sh in tree):
                continue
            n += 1
            it = Interp(world, table, budget=60_000)
            it.constructible = {ident.qual}
            if isinstance(out_fn, ast.FunctionDef):
                it.summaries[id(out_fn)] = lambda args, kwargs, it=it: as_structure(it.call_method(args[0], 'mv', it.call_method(args[0], 'in_structure')))
            what = f'ReshapeOperator({target}) on leaves of shapes {tree}'
            try:
                op = it.construct(reshape, target, in_structure=struct)
                red = it.call_method(op, 'reduce')
            except (Raised, Undecided):
                return None
            if it.degraded or red is UNK or not isinstance(red, Obj):
                return None
            unchanged = all(normal(sh, target) == tuple(sh) for sh in tree)
            is_identity = red.cls is ident
            if not is_identity and red is not op:
                return None
            if is_identity != unchanged:
                problems.append(f'{what}: reduce() returns ' + ('the identity although a leaf is reshaped' if is_identity else 'the operator although no leaf changes'))
    return (n, problems) if n >= 20 else None


def _ravel_by_evaluation(ctx, ck, ravel) -> bool:
    """A1/A2/reduce for RavelOperator, decided by following the axes (sa/axinterp.py) for every pair (first, last) in -4..3 on
    leaves of rank 1-4 and on a pytree of two leaves of different ranks: a legal pair merges exactly the axes first..last of
    every leaf, in order; a pair whose first axis comes after the last one on some leaf is refused at construction; reduce()
    gives the identity exactly when no leaf changes.  Returns True when decided."""
    from ..axinterp import AxArr, Built, Interp, Obj, Raised, StructLeaf, Undecided, UNK, as_structure
    from ..classes import CORE

    world, table = ctx.world, ctx.table
    base = table.get(f'{CORE}.AbstractLinearOperator')
    ident = table.by_name('IdentityOperator')
    out_fn = base.own.get('out_structure')
    sizes = (2, 3, 5, 7)
    problems: list[str] = []
    undecided: list[str] = []
    n = 0

    def leaf(rank, tag):
        return StructLeaf(tuple((frozenset({f'{tag}{j}'}), sizes[j]) for j in range(rank)))

    def expected(lf, f, l):
        m = lf.ndim
        fa, la = (f + m if f < 0 else f), (l + m if l < 0 else l)
        if not (0 <= fa < m and 0 <= la < m) or fa > la:
            return None
        if fa == la:
            return lf
        names = ['.'.join(sorted(x)) for x, _ in lf.axes[fa:la + 1]]
        size = 1
        for _, s_ in lf.axes[fa:la + 1]:
            size *= s_
        return AxArr(lf.axes[:fa] + ((frozenset({'*'.join(names)}), size),) + lf.axes[la + 1:])

    trees = [(leaf(r, 'x'),) for r in (1, 2, 3, 4)] + [(leaf(2, 'x'), leaf(3, 'y')), (leaf(1, 'x'), leaf(3, 'y'))]
    for tree in trees:
        struct = tree[0] if len(tree) == 1 else list(tree)
        for f in range(-4, 4):
            for l in range(-4, 4):
                wants = [expected(lf, f, l) for lf in tree]
                in_range = all(-lf.ndim <= f < lf.ndim and -lf.ndim <= l < lf.ndim for lf in tree)
                # an axis beyond the rank of a leaf: only the clause "the first axis comes after the last one" is decided
                # there (a negative axis counts from the end, it does not wrap around)
                crossed = any((f + lf.ndim if f < 0 else f) > (l + lf.ndim if l < 0 else l) for lf in tree)
                if not in_range and not crossed:
                    continue
                legal = all(w is not None for w in wants) and not crossed
                n += 1
                it = Interp(world, table, budget=50_000)
                it.constructible = {ident.qual}
                it.watch_constructors = set()
                if isinstance(out_fn, ast.FunctionDef):
                    # out_structure is the abstract evaluation of mv on the input structure
                    it.summaries[id(out_fn)] = lambda args, kwargs, it=it: as_structure(it.call_method(args[0], 'mv', it.call_method(args[0], 'in_structure')))
                what = f'RavelOperator({f}, {l}) on leaves of rank {[lf.ndim for lf in tree]}'
                try:
                    op = it.construct(ravel, f, l, in_structure=struct)
                except Raised:
                    if legal:
                        problems.append(f'{what}: a legal pair of axes is refused at construction')
                    continue
                except Undecided as exc:
                    undecided.append(f'{what}: {exc}')
                    continue
                if not legal:
                    if not it.degraded:
                        problems.append(f'{what}: the first axis comes after the last one on some leaf, yet the operator is built (it only fails when applied)')
                    continue
                try:
                    res = it.call_method(op, 'mv', struct)
                    red = it.call_method(op, 'reduce')
                except Raised as exc:
                    problems.append(f'{what}: mv / reduce raises {exc.name}')
                    continue
                except Undecided as exc:
                    undecided.append(f'{what}: {exc}')
                    continue
                got = [res] if isinstance(res, AxArr) else list(res) if isinstance(res, (list, tuple)) else None
                if got is None or not all(isinstance(g, AxArr) for g in got) or it.degraded:
                    undecided.append(f'{what}: the result of mv cannot be followed ({it.degraded[:1]})')
                    continue
                if [g.axes for g in got] != [w.axes for w in wants]:
                    problems.append(f'{what}: mv gives {got!r}, the axes {f}..{l} merged in order give {wants!r}')
                unchanged = all(w.axes == lf.axes for w, lf in zip(wants, tree))
                is_identity = isinstance(red, Obj) and red.cls is ident
                if red is UNK or not isinstance(red, Obj):
                    undecided.append(f'{what}: the result of reduce() cannot be followed')
                elif is_identity != unchanged:
                    problems.append(f'{what}: reduce() returns {"the identity although a leaf is reshaped" if is_identity else "the operator although no leaf changes"}')
        if len(undecided) > 3:
            break
    target = table.resolve(ravel, 'mv').node
    if undecided:
        ck.incomplete('A1', target, f'RavelOperator could not be followed for {len(undecided)} of {n} cases, e.g. {undecided[0]}', instance='ravel by evaluation')
        return False
    ck.expect('A1', not problems, target, f'for all {n} pairs (first, last) and leaf ranks 1-4 (and pytrees of two ranks): the axes first..last are merged in order, a first axis after the last one is refused at construction, reduce() is the identity exactly when no leaf changes',
              f'{problems[0] if problems else ""} ({len(problems)} of {n} cases)', instance='ravel by evaluation', semantic=True)
    return True


def _run(ctx, ck) -> bool:
    world, table = ctx.world, ctx.table
    kinds = all_mv(ctx)
    g = table.by_name
    move, ravel, reshape, rt = g('MoveAxisOperator'), g('RavelOperator'), g('ReshapeOperator'), g('ReshapeTransposeOperator')
    ravel_decided = _ravel_by_evaluation(ctx, ck, ravel)
    ctx.cache['c13_ravel_decided'] = ravel_decided
    # ------------------------------------------------------------------ A1
    for cls in (move, ravel, reshape, rt):
        s = kinds.get(cls.qual)
        if s is None:
            raise AnalysisError(f'anchor vanished: {cls.name}.mv')
        ok = isinstance(s.value, Lin) and s.value.k == 'Perm' and not s.unknowns and not s.taints
        ck.expect('A1', ok, s.fn, f'{cls.name}.mv only relabels the elements of each leaf (kind Perm): a permutation matrix, transpose = inverse',
                  f'{cls.name}.mv is {describe(s.value)}' + (f' ({s.taints[0].why})' if s.taints else '') + ': not a pure relabelling of the elements', instance=cls.name)
    # argument order of the primitives
    fn = move.own.get('mv')
    t = _ret(fn) if isinstance(fn, ast.FunctionDef) else None
    ok = False
    if t is not None:
        S, x = ('var', fn.args.args[0].arg), ('var', fn.args.args[1].arg)
        if t[0] == 'call' and t[1] == ('attr', ('attr', ('var', 'jax'), 'tree'), 'map') and len(t[2]) == 2 and t[2][1] == x and t[2][0][0] == 'lambda':
            p = ('var', t[2][0][1][0])
            ok = t[2][0][2] == ('call', ('attr', ('var', 'jnp'), 'moveaxis'), (p, ('attr', S, 'source'), ('attr', S, 'destination')), ())
    if ok:
        ck.ok('A1', fn or move.node, 'every leaf goes through jnp.moveaxis(leaf, source, destination) in that argument order', instance='moveaxis argument order')
    else:
        # written another way: decided by following the axes of a leaf through the constructor and mv, for every order type of
        # (source, destination) on leaves of rank 1..4 (axis-provenance interpretation, sa/axinterp.py)
        _moveaxis_placement(ctx, ck, move, fn)
    fn = reshape.own.get('mv')
    t = _ret(fn) if isinstance(fn, ast.FunctionDef) else None
    ok = False
    if t is not None:
        S, x = ('var', fn.args.args[0].arg), ('var', fn.args.args[1].arg)
        if t[0] == 'call' and t[1] == ('attr', ('attr', ('var', 'jax'), 'tree'), 'map') and len(t[2]) == 2 and t[2][1] == x and t[2][0][0] == 'lambda':
            p = ('var', t[2][0][1][0])
            ok = t[2][0][2] in (('call', ('attr', p, 'reshape'), (('attr', S, 'shape'),), ()), ('call', ('attr', ('var', 'jnp'), 'reshape'), (p, ('attr', S, 'shape')), ()))
    ck.expect('A1', ok, fn or reshape.node, 'every leaf is reshaped to the stored target shape', f'ReshapeOperator.mv is {show(t)}', instance='reshape target')
    fn = ravel.own.get('mv')
    ok = False
    why = 'mv vanished'
    if isinstance(fn, ast.FunctionDef):
        inner = next((n for n in fn.body if isinstance(n, ast.FunctionDef)), None)
        if inner is not None:
            S = ('var', fn.args.args[0].arg)
            L = ('var', inner.args.args[0].arg)
            from ..terms import facts as path_facts

            rets = [p for p in function_paths(inner) if p.exit == 'return']
            zero = ('const', '0')

            def normalised(axis_t, attr, fs) -> bool:
                """axis_t is self.<attr> normalised with the rank of the leaf, given the facts of the path."""
                raw = ('attr', S, attr)
                neg = ('lt', raw, zero) in fs
                nonneg = ('le', zero, raw) in fs
                shifted = (('binop', '+', ('attr', L, 'ndim'), raw), ('binop', '+', raw, ('attr', L, 'ndim')))
                if axis_t == raw:
                    return nonneg
                if axis_t in shifted:
                    return neg
                both = (('ifexp', ('cmp', 'lt', raw, zero), shifted[0], raw), ('ifexp', ('cmp', 'lt', raw, zero), shifted[1], raw),
                        ('ifexp', ('cmp', 'ge', raw, zero), raw, shifted[0]), ('ifexp', ('cmp', 'ge', raw, zero), raw, shifted[1]),
                        ('binop', '%', raw, ('attr', L, 'ndim')))
                return axis_t in both

            n_reshape = 0
            bad_paths = []
            for p in rets:
                e = path_env(p)
                tt = term(p.node.value, e)
                fs = path_facts(p)
                if tt == L:
                    continue  # nothing to merge on this path (first == last)
                shape = None
                if tt[0] == 'call' and tt[1] == ('attr', L, 'reshape') and len(tt[2]) == 1:
                    shape = tt[2][0]
                elif tt[0] == 'call' and tt[1] == ('attr', ('var', 'jnp'), 'reshape') and len(tt[2]) == 2 and tt[2][0] == L:
                    shape = tt[2][1]
                good = False
                if shape is not None and shape[0] == 'binop' and shape[1] == '+' and shape[2][0] == 'binop' and shape[2][1] == '+':
                    head, mid, tail = shape[2][2], shape[2][3], shape[3]
                    if (head[0] == 'sub' and head[1] == ('attr', L, 'shape') and head[2][0] == 'slice' and head[2][1] in (('none',), zero) and head[2][3] == ('none',)
                            and mid == ('tuple', ('unop', 'neg', ('const', '1')))
                            and tail[0] == 'sub' and tail[1] == ('attr', L, 'shape') and tail[2][0] == 'slice' and tail[2][2] == ('none',) and tail[2][3] == ('none',)
                            and tail[2][1][0] == 'binop' and tail[2][1][1] == '+' and tail[2][1][3] == ('const', '1')):
                        fa, la = head[2][2], tail[2][1][2]
                        good = normalised(fa, 'first_axis', fs) and normalised(la, 'last_axis', fs)
                n_reshape += 1
                if not good:
                    bad_paths.append(show(tt))
            ok = n_reshape >= 1 and not bad_paths
            why = bad_paths[0] if bad_paths else 'no path reshapes the leaf'
    ck.expect('A1', ok, fn or ravel.node, 'axes first..last (negative ones normalised with the rank of the leaf) are merged: shape[:first] + (-1,) + shape[last+1:]',
              f'RavelOperator.mv does not merge exactly the axes first..last of each leaf: {why}', instance='ravel merged axes')

    # ------------------------------------------------------------------ A5 the axes are stored as given
    from ..paramflow import integrity

    minit = move.own.get('__init__')
    if isinstance(minit, ast.FunctionDef):
        for fld in ('source', 'destination'):
            kind, ex = integrity(minit, fld, fld)
            if kind == 'identity':
                ck.ok('A5', minit, f'{fld} is stored as given (only normalised to a tuple)', instance=f'moveaxis {fld}')
            elif kind == 'filtered':
                ck.bad('A5', minit, f'MoveAxisOperator stores a filtered / re-paired version of `{fld}` ({show(ex)[:80]}): dropping or re-pairing (source, destination) pairs changes where numpy.moveaxis puts the '
                       'remaining axes, so the operator no longer acts as moveaxis(x, source, destination)', instance=f'moveaxis {fld}')
            else:
                ck.incomplete('A5', minit, f'{fld} is stored as {show(ex)[:80]}', instance=f'moveaxis {fld}')

    # ------------------------------------------------------------------ A2 validation
    init = ravel.own.get('__init__')
    if not isinstance(init, ast.FunctionDef):
        raise AnalysisError('anchor vanished: RavelOperator.__init__')
    from ..terms import raise_paths

    F, La = ('var', init.args.args[1].arg), ('var', init.args.args[2].arg)
    rps = raise_paths(init, 'ValueError')
    chain_a = {('chain', ('le', 'lt'), ('const', '0'), La, F), ('and', ('cmp', 'le', ('const', '0'), La), ('cmp', 'lt', La, F))}
    chain_b = {('chain', ('lt', 'lt'), La, F, ('const', '0')), ('and', ('cmp', 'lt', La, F), ('cmp', 'lt', F, ('const', '0')))}
    same_sign = any(f[0] == 'truth' and f[2] is True and any(contains(f[1], c) for c in chain_a) and any(contains(f[1], c) for c in chain_b) for fs, _, _ in rps for f in fs)
    # decided semantically: the disjunction of the refusal conditions that only compare first, last and 0 must hold exactly
    # when both axes have the same sign and last < first (all order types of (first, last, 0) are enumerated)
    from ..terms import NotEvaluable, eval_term

    def refusal(fv: int, lv: int):
        hit = False
        for p in function_paths(init):
            if p.exit != 'raise' or exception_name(p.node) != 'ValueError':
                continue
            e = path_env(p)
            vals = []
            try:
                for ex, pol in p.conds():
                    vals.append(bool(eval_term(term(ex, e), {F: fv, La: lv})) == pol)
            except NotEvaluable:
                continue  # a refusal that looks at the leaves (the mixed-sign case)
            if vals and all(vals):
                hit = True
        return hit

    grid = [(a, b) for a in range(-3, 4) for b in range(-3, 4)]
    wrong = [(a, b) for a, b in grid if refusal(a, b) != (((a < 0) == (b < 0)) and b < a)]
    if wrong:
        a, b = wrong[0]
        same_sign = False
        why_ss = f'first_axis={a}, last_axis={b} is {"refused" if refusal(a, b) else "accepted"}'
    else:
        same_sign = True
        why_ss = ''
    ck.expect('A2', same_sign, init, 'first axis after the last one (both non-negative or both negative) is refused, and nothing else, by the leaf-independent guards (all 49 order types of first, last, 0)',
              f'the leaf-independent guards of RavelOperator do not refuse exactly "same sign and last < first": {why_ss}', instance='ravel same-sign order', semantic=True)
    leaves_t = ('call', ('attr', ('attr', ('var', 'jax'), 'tree'), 'leaves'), (('var', 'in_structure'),), ())
    per_leaf = False
    for fs, env, p in rps:
        in_loop = any(ev[0] == 'iter' and ev[2] and term(ev[1].iter) == leaves_t for ev in p.events)
        if in_loop and any(f[0] == 'lt' and 'ndim' in show(f[1]) and 'ndim' in show(f[2]) for f in fs):
            per_leaf = True
    if not per_leaf and any(o.rule.endswith('A1') and 'ravel by evaluation' in o.construct and o.status == 'ok' for o in ck.obs):
        # decided by the evaluation of RavelOperator on pytrees of leaves of different ranks (A1: a pair whose first axis comes after
        # the last one on some leaf is refused at construction)
        ck.ok('A2', init, 'with axes of mixed sign the order is checked on every leaf: decided by evaluation on pytrees of two ranks (A1)', instance='ravel mixed-sign per leaf')
    else:
        ck.expect('A2', per_leaf, init, 'with axes of mixed sign the order is checked on every leaf (it depends on the rank of the leaf)', 'mixed-sign ravel axes are no longer validated against every leaf', instance='ravel mixed-sign per leaf')

    # ... and for every pair of axes of opposite "signs" (one negative, the other >= 0, zero included) that per-leaf check is
    # reached: the conditions on (first, last) alone that guard it hold (enumerated over the order types of first, last, 0)
    def reaches_leaf_check(fv: int, lv: int) -> bool:
        for p in function_paths(init):
            if p.exit != 'raise' or exception_name(p.node) != 'ValueError':
                continue
            if not any(ev[0] == 'iter' and ev[2] and term(ev[1].iter) == leaves_t for ev in p.events):
                continue
            e = path_env(p)
            ok_path = True
            leafy = False
            for ex, pol in p.conds():
                try:
                    if bool(eval_term(term(ex, e), {F: fv, La: lv})) != pol:
                        ok_path = False
                        break
                except NotEvaluable:
                    leafy = True  # the comparison that involves the rank of the leaf
            if ok_path and leafy:
                return True
        return False

    if per_leaf:
        mixed = [(a, b) for a, b in grid if (a < 0) != (b < 0)]
        skipped = [(a, b) for a, b in mixed if not reaches_leaf_check(a, b)]
        ck.expect('A2', not skipped, init, f'all {len(mixed)} pairs with one negative and one non-negative axis (zero included) reach the per-leaf check',
                  f'first_axis={skipped[0][0] if skipped else ""}, last_axis={skipped[0][1] if skipped else ""} (one negative axis, one non-negative) never reaches the per-leaf order check: '
                  'for a leaf whose rank puts the first axis after the last one the operator is built and only fails when applied', instance='ravel mixed-sign coverage', semantic=True)
    stores = [i for i, st in enumerate(init.body) if 'self.' in ast.unparse(st).split('=')[0] and isinstance(st, ast.Assign) or 'super().__init__' in ast.unparse(st)]
    raises = [i for i, st in enumerate(init.body) if any(isinstance(n, ast.Raise) for n in ast.walk(st))]
    # (whether the fields are stored before or after the refusals does not matter: a constructor that raises yields no object)
    ck.expect('A2', bool(raises), init, 'the refusals are raised by the constructor', 'the constructor no longer refuses anything', instance='ravel guards first', nontrivial=False)

    def _resolved(name):
        r_ = table.resolve(reshape, name)
        return r_.node if r_ is not None else None

    rinit, chk, norm = _resolved('__init__'), _resolved('_check_shape'), _resolved('_normalize_shape')
    if not all(isinstance(x, ast.FunctionDef) for x in (rinit, chk, norm)):
        ck.incomplete('A2', reshape.node, 'ReshapeOperator no longer validates its target shape through __init__ / _check_shape / _normalize_shape: the reshape clauses are not decided', instance='reshape validation')
        return
    order = [ast.unparse(st) for st in rinit.body]
    i_chk = next((i for i, s in enumerate(order) if '_check_shape(' in s), None)
    i_store = next((i for i, (s, st) in enumerate(zip(order, rinit.body)) if (isinstance(st, ast.Assign) and s.startswith('self.')) or 'super().__init__' in s), None)
    ck.expect('A2', i_chk is not None and (i_store is None or i_chk < i_store), rinit, 'the target shape is checked against every leaf before any field is stored', 'ReshapeOperator stores its fields before (or without) checking the target shape', instance='reshape check first')
    size_guard = False
    for fs, env, p in raise_paths(chk, 'ValueError'):
        loop_ev = next((ev for ev in p.events if ev[0] == 'iter' and ev[2]), None)
        if loop_ev is None or term(loop_ev[1].iter) != leaves_t:
            continue
        for f in fs:
            if f[0] == 'ne' and any('size' in show(x) and 'elem' in show(x) for x in f[1]) and any('prod(' in show(x) for x in f[1]):
                size_guard = True
    verdict = None if size_guard else _reshape_validation_by_evaluation(ctx, reshape)
    if verdict is not None:
        ncases, problems = verdict
        ck.expect('A2', not problems, chk, f'on {ncases} constructions (one to three leaves, targets with and without -1) the reshape operator is accepted exactly when every leaf can take the target shape',
                  f'{problems[0] if problems else ""} ({len(problems)} of {ncases})', instance='reshape size per leaf', semantic=True)
    else:
        ck.expect('A2', size_guard, chk, 'a target shape whose size differs from the leaf size is refused, for every leaf', 'a target shape of a different size is no longer refused for every leaf', instance='reshape size per leaf')
    nfacts = [fs for fs, _, _ in raise_paths(norm, 'ValueError')]
    neg = any(f[0] == 'truth' and f[2] is True and f[1][0] == 'call' and f[1][1] == ('var', 'any') and ("'lt'" in repr(f[1]) and "neg" in repr(f[1])) for fs in nfacts for f in fs)
    second = any(f[0] == 'in' and f[3] is True and f[1] in (('unop', 'neg', ('const', '1')), ('const', '-1')) for fs in nfacts for f in fs)
    minus1 = (('unop', 'neg', ('const', '1')), ('const', '-1'))

    def is_count(t):
        return isinstance(t, tuple) and t and t[0] == 'call' and t[1][0] == 'attr' and t[1][2] == 'count' and len(t[2]) == 1 and t[2][0] in minus1

    # or: the number of -1 entries is known to exceed one
    second = second or any((f[0] == 'lt' and f[1] == ('const', '1') and is_count(f[2])) or (f[0] == 'le' and f[1] == ('const', '2') and is_count(f[2])) for fs in nfacts for f in fs)
    ck.expect('A2', neg, norm, 'sizes below -1 are refused', 'negative sizes other than -1 are no longer refused', instance='reshape negative size')
    ck.expect('A2', second, norm, 'a second unknown (-1) size is refused', 'a second -1 in the target shape is no longer refused', instance='reshape second unknown')

    # ------------------------------------------------------------------ A3 transposes / inverse
    fn = move.own.get('transpose')
    ok, why = c03.SCHEMAS['MoveAxisOperator'](table, move, fn) if isinstance(fn, ast.FunctionDef) else (False, 'vanished')
    if ok:
        ck.ok('A3', fn or move.node, why, instance='moveaxis transpose')
    else:
        _moveaxis_transpose(ctx, ck, move, fn, why)
    r = table.resolve(move, 'inverse')
    ok, why = c06.s_moveaxis(ctx, table, move, r) if r is not None else (False, 'inverse does not resolve')
    ck.expect('A3', ok, move.node, why, f'MoveAxisOperator.inverse: {why}', instance='moveaxis inverse')
    base = g('AbstractRavelOrReshapeOperator')
    fn = base.own.get('transpose')
    ok, why = c03.SCHEMAS['AbstractRavelOrReshapeOperator'](table, base, fn) if isinstance(fn, ast.FunctionDef) else (False, 'vanished')
    ck.expect('A3', ok, fn or base.node, why, f'ravel/reshape transpose: {why}', instance='reshape transpose')
    mvn = rt.own.get('mv')
    t = _ret(mvn) if isinstance(mvn, ast.FunctionDef) else None
    ok_r = False
    if t is not None:
        S, x = ('var', mvn.args.args[0].arg), ('var', mvn.args.args[1].arg)
        if t[0] == 'call' and t[1] == ('attr', ('attr', ('var', 'jax'), 'tree'), 'map') and len(t[2]) == 3 and t[2][0][0] == 'lambda' and len(t[2][0][1]) == 2:
            p1, p2 = t[2][0][1]
            ok_r = t[2][0][2] == ('call', ('attr', ('var', p1), 'reshape'), (('attr', ('var', p2), 'shape'),), ()) and t[2][1] == x and t[2][2] == ('OUT', S)
    ck.expect('A3', ok_r, mvn or rt.node, 'the dual reshapes every leaf back to the matching leaf shape of the operand\'s input structure', f'ReshapeTransposeOperator.mv is {show(t)}', instance='reshape dual')

    # ------------------------------------------------------------------ A4 no-op and pair rules
    sub = type(ck)(ck.pid)
    c01._r_ident(sub, world, table)
    for o in sub.obs:
        if 'RavelOrReshape' in o.construct:
            o.rule = f'{ck.pid}.A4'
            ck.obs.append(o)
    rules = [r for r in table.rules() if r.name in ('MoveAxisInverseRule', 'ReshapeInverseRule')]
    infos = {r.qual: rule_info(table, r) for r in rules}
    sub = type(ck)(ck.pid)
    c01._r_del(sub, world, table, rules, infos)
    for o in sub.obs:
        o.rule = f'{ck.pid}.A4'
        ck.obs.append(o)
    ck.floor('A4', sum(1 for o in ck.obs if o.rule.endswith('A4')), 4, 'no-op and pair-rule obligations')


def run(ctx, ck) -> None:
    _run(ctx, ck)
    if ctx.cache.get('c13_ravel_decided'):
        # where the evaluation decided RavelOperator (axes merged, refusals, reduce), the clauses on its written form are kept only when they agree
        kept = []
        for o in ck.obs:
            structural = ('ravel merged axes' in o.construct) or ('AbstractRavelOrReshapeOperator.reduce' in o.construct and 'no-op guard' in o.construct)
            if structural and o.status != 'ok':
                ck.note(f'{o.rule} [{o.construct}] not decided structurally ({o.status}: {o.how[:100]}); superseded by the evaluation of RavelOperator')
                continue
            kept.append(o)
        ck.obs[:] = kept


def controls(world: World) -> list[Control]:
    return [
        Control('moveaxis-args-swapped', lambda w: edit_def(w, AXES, 'MoveAxisOperator.mv', lambda fn: replace_expr(fn, 'jnp.moveaxis(leaf, self.source, self.destination)', 'jnp.moveaxis(leaf, self.destination, self.source)')), 'C13.A1'),
        Control('ravel-off-by-one', lambda w: edit_def(w, AXES, 'RavelOperator.mv', lambda fn: replace_expr(fn, 'leaf.shape[last_axis + 1:]', 'leaf.shape[last_axis:]')), 'C13.A1'),
        Control('reshape-size-guard-dropped', lambda w: edit_def(w, AXES, 'ReshapeOperator._check_shape', lambda fn: remove_stmt(fn, 'if leaf.size != prod(new_shape):', prefix=True)), 'C13.A2'),
        Control('pair-rule-one-sided', lambda w: edit_def(w, AXES, 'MoveAxisInverseRule.apply', lambda fn: replace_expr(fn, 'left.source != right.destination or left.destination != right.source', 'left.source != right.destination')), 'C13.A4'),
    ]

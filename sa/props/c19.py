"""C19 - solver configuration is scoped, restored and captured correctly.

Decided as a clause set K1-K7 that is sufficient given the trusted base (CPython
``contextvars``, ``with`` and ``dataclasses.replace``): ownership of the context variable,
set/reset pairing on every path, inheritance of the outer value, immutability of the state,
capture at construction of a lazy inverse, and use of the captured value only.
"""

from __future__ import annotations

import ast

from ..callgraph import CallGraph
from ..classes import CORE
from ..loader import AnalysisError, World, dotted, enclosing, module_of, parent, qualname, site
from ..mutate import edit_def, insert_before, remove_stmt, replace_expr, replace_stmt
from ..paths import function_paths
from ..run import Control
from ..terms import path_env, show, term

LEVEL = 'proof'
CONFIG = 'furax._base.config'
VAR = f'{CONFIG}._config_var'
RULE_TEXT = (
    'obligations K1-K7 enumerated over every reference to the context variable, every path of '
    'Config.__enter__/__exit__/__init__, every use of the mutable solver_options, every path of '
    'InverseOperator.__init__ and the solver call of InverseOperator.mv; an obligation is '
    'non-trivial when it is discharged by a path/dataflow argument rather than by presence'
)
EXPLANATION = (
    'Static proof that the configuration mechanism is a well-bracketed ContextVar discipline: '
    'the variable is private to config.py, set only in __enter__ (token kept on the instance) and '
    'reset exactly once with that token on every path of __exit__, the installed value is '
    'replace(<current value>, **kwargs), the state object is frozen and its one mutable member is '
    'only read or copied, the lazy inverse stores Config.instance() at construction in a static '
    'field and its mv reads nothing but that field. Given the semantics of contextvars this '
    'implies the property for all nested histories and thread interleavings.'
)


def _var_refs(world: World) -> list[ast.AST]:
    """Every Name/Attribute node that denotes the context variable."""
    refs = []
    for module in world.modules.values():
        for node in ast.walk(module.tree):
            if isinstance(node, (ast.Name, ast.Attribute)):
                if isinstance(parent(node), ast.Attribute):
                    # only the outermost chain that resolves
                    if world.qualify(module, node) == VAR and dotted(node) is not None:
                        refs.append(node)
                    continue
                if world.qualify(module, node) == VAR:
                    refs.append(node)
            elif isinstance(node, ast.ImportFrom):
                for alias in node.names:
                    if alias.name == '_config_var':
                        refs.append(node)
    # de-duplicate nested chains
    uniq = []
    seen = set()
    for r in refs:
        if id(r) not in seen:
            seen.add(id(r))
            uniq.append(r)
    return uniq


def _inheritance_by_evaluation(ctx, ck, config_cls, cfg) -> bool:
    """K4 decided semantically: Config(**overrides) is evaluated (sa/axinterp.py) with a symbolic outer configuration, for every
    subset of the settings being overridden and for truthy and falsy override values; the state it keeps must hold the
    override for every named setting and the outer value for every other one.  Returns True when decided."""
    import itertools

    from ..axinterp import Interp, Obj, Opaque, PyStub, Raised, Undecided, UNK

    world, table = ctx.world, ctx.table
    state_cls = table.find(f'{CONFIG}.ConfigState')
    if state_cls is None:
        return False
    names = [f.name for f in table.fields(state_cls)]
    if not names:
        return False
    wrong: list[str] = []
    n = 0
    falsy = {'solver_throw': False, 'solver_options': {}}
    for r_ in range(0, len(names) + 1):
        for subset in itertools.combinations(names, r_):
            for kind in ('truthy', 'falsy'):
                if kind == 'falsy' and not any(f in falsy for f in subset):
                    continue
                outer = Obj(state_cls, {f: Opaque(f'outer.{f}') for f in names})
                outer.attrs['__record_fields__'] = tuple(names)
                var = PyStub()
                var.get = lambda *a, _o=outer: _o
                var.set = lambda v: Opaque('token')
                var.reset = lambda t: None
                it = Interp(world, table, budget=50_000)
                it.globals_override[(cfg.name, '_config_var')] = var
                # (override values are concrete objects, so that `value or inherited` and `if value is not None` are decided)
                truthy = {'solver_throw': True, 'solver_options': {'option': 1}}
                overrides = {f: (falsy[f] if kind == 'falsy' and f in falsy else truthy.get(f, _named_stub(PyStub, f'new.{f}'))) for f in subset}
                n += 1
                try:
                    obj = it.construct(config_cls, **overrides)
                except (Raised, Undecided) as exc:
                    ck.incomplete('K4', config_cls.node, f'Config({", ".join(subset)}) could not be evaluated: {exc}', instance='inheritance by evaluation')
                    return False
                if it.degraded:
                    ck.incomplete('K4', config_cls.node, f'Config({", ".join(subset)}) could not be evaluated: {it.degraded[0]}', instance='inheritance by evaluation')
                    return False
                kept = [v for v in obj.attrs.values() if isinstance(v, Obj) and v.cls is state_cls]
                if len(kept) != 1:
                    ck.incomplete('K4', config_cls.node, 'the constructor does not keep exactly one configuration state on the instance', instance='inheritance by evaluation')
                    return False
                st = kept[0]
                for f in names:
                    want = overrides[f] if f in overrides else outer.attrs[f]
                    got = st.attrs.get(f, UNK)
                    if not (got is want or (not isinstance(want, Opaque) and not isinstance(got, Opaque) and got == want and type(got) is type(want))):
                        wrong.append(f'Config({", ".join(f"{k}={overrides[k]!r}" for k in subset)}) inside an outer block keeps {f} = {got!r} instead of {want!r}')
    init = table.resolve(config_cls, '__init__')
    ck.expect('K4', not wrong, init.node if init else config_cls.node, f'for all {n} combinations of overridden settings (truthy and falsy values) the state built by Config(...) holds the named settings and inherits the others from the active configuration',
              f'{wrong[0] if wrong else ""}: a named setting is not overridden, or an unnamed one is not inherited from the enclosing block', instance='inheritance by evaluation', semantic=True)
    return True


def _use_by_evaluation(ctx, ck, inv, mv_node) -> bool:
    """K7 by abstract execution (sa/axinterp.py): InverseOperator.mv is evaluated on an inverse holding a captured configuration
    made of four distinct objects (with and without a preconditioner among the options); the calls of lineax.linear_solve
    and jax.debug.callback are recorded.  The solve must receive the captured solver and throw flag themselves, and options
    that hold the captured options in a *new* dictionary; the callback must be the captured one.  Returns True when decided."""
    from ..axinterp import Interp, Obj, Opaque, PyStub, Raised, Undecided, UNK

    world, table = ctx.world, ctx.table
    state_cls = table.find(f'{CONFIG}.ConfigState')
    generic = table.find('furax._base.dense.DenseBlockDiagonalOperator')
    if state_cls is None or generic is None:
        return False
    names = [f.name for f in table.fields(state_cls)]
    if set(names) != {'solver', 'solver_throw', 'solver_options', 'solver_callback'}:
        return False
    problems: list[str] = []
    for with_precond in (False, True):
        stubs = {n: _named_stub(PyStub, f'captured.{n}') for n in names}
        options = {'option': _named_stub(PyStub, 'captured.option')}
        if with_precond:
            options['preconditioner'] = _named_stub(PyStub, 'captured.preconditioner')
        stubs['solver_options'] = options
        kept = dict(options)
        cfg = Obj(state_cls, dict(stubs))
        cfg.attrs['__record_fields__'] = tuple(names)
        solution = PyStub()
        solution.value = Opaque('solution.value')
        it = Interp(world, table, budget=40_000)
        it.watch_externals = {'lineax.linear_solve': solution, 'jax.debug.callback': None}
        op = Obj(inv, {'operator': Obj(generic, {'name': 'A'}), 'config': cfg})
        what = 'mv of a lazy inverse' + (' (with a preconditioner among the captured options)' if with_precond else '')
        try:
            it.call_method(op, 'mv', Opaque('x'))
        except Raised as exc:
            problems.append(f'{what} raises {exc.name}')
            continue
        except Undecided as exc:
            ck.note(f'K7: {what} could not be evaluated: {exc}' + (f' [{it.degraded[0]}]' if it.degraded else ''))
            return False
        if it.degraded:
            ck.note(f'K7: {what} could not be evaluated: {it.degraded[0]}')
            return False
        solves = [c for c in it.external_calls if c[0] == 'lineax.linear_solve']
        if len(solves) != 1:
            ck.note(f'K7: {what} calls lineax.linear_solve {len(solves)} times: not decided by evaluation')
            return False
        _p, args, kw = solves[0]
        pos = dict(zip(('operator', 'vector', 'solver'), args))
        solver = kw.get('solver', pos.get('solver'))
        if solver is not stubs['solver']:
            problems.append(f'{what}: the solve does not receive the captured solver' + (' (no solver is passed: lineax picks its default)' if solver is None else ''))
        throw = kw.get('throw', _MISSING19)
        if throw is not stubs['solver_throw']:
            problems.append(f'{what}: the solve receives throw={"lineax\'s default" if throw is _MISSING19 else repr(throw)} instead of the captured solver_throw')
        opts = kw.get('options')
        if opts is UNK or (opts is not None and not isinstance(opts, dict)):
            ck.note(f'K7: {what}: the options handed to the solve could not be followed: not decided by evaluation')
            return False
        if not isinstance(opts, dict):
            problems.append(f'{what}: the solve does not receive the captured options')
        else:
            if opts is options:
                problems.append(f'{what}: the solve receives the captured options dictionary itself (and may tag its preconditioner in place), not a copy')
            if opts.get('option') is not kept['option'] or set(opts) != set(kept):
                problems.append(f'{what}: the options given to the solve are not the captured ones')
        if options != kept or any(options[k_] is not kept[k_] for k_ in kept):
            problems.append(f'{what} changes the captured options in place')
        cbs = [c for c in it.external_calls if c[0] == 'jax.debug.callback']
        if cbs and (not cbs[0][1] or cbs[0][1][0] is not stubs['solver_callback']):
            problems.append(f'{what}: the callback is not the captured solver_callback')
    ck.expect('K7', not problems, mv_node, 'mv hands the captured solver, throw flag, a fresh copy of the captured options and the captured callback to the solve (evaluated with and without a preconditioner)',
              f'{problems[0] if problems else ""} ({len(problems)} deviations)', instance='captured configuration used (by evaluation)', semantic=True)
    return True


_MISSING19 = object()


def _named_stub(PyStub, name: str):
    st = PyStub()
    st.label = name
    return st


def _subterms19(t):
    if isinstance(t, tuple):
        yield t
        for x in t:
            yield from _subterms19(x)


def _activation_generators(world, cfg, uses) -> set:
    """Generator context managers (@contextmanager) of config.py that set / reset the variable."""
    out = set()
    for c in uses['set'] + uses['reset']:
        fn = enclosing(c, (ast.FunctionDef,))
        if fn is None:
            continue
        decos = {(world.qualify(module_of(d), d) or '') for d in fn.decorator_list}
        if decos & {'contextlib.contextmanager'} and any(isinstance(n, ast.Yield) for n in ast.walk(fn)):
            out.add(fn)
    return out


def _scoped_installed(enter: ast.FunctionDef, scopes: set):
    names = {g.name for g in scopes}
    for p in function_paths(enter):
        if p.exit == 'raise':
            continue
        env = path_env(p)
        for ev in p.events:
            nodes = [ev[1]] if ev[0] in ('stmt', 'cond') else []
            for n0 in nodes + ([p.node] if p.node is not None else []):
                for n in ast.walk(n0):
                    if isinstance(n, ast.Call) and isinstance(n.func, ast.Name) and n.func.id in names and n.args:
                        return term(n.args[0], path_env(p, upto=ev[1]) if ev[0] == 'stmt' else env)
    return None


def _scoped_activation(ck, world, cfg, config_cls, enter: ast.FunctionDef, exit_: ast.FunctionDef, scopes: set, uses) -> None:
    """K2/K3 for an activation written as a generator context manager: set, then try: yield finally: reset(token); __enter__
    opens exactly one such scope per entry and keeps it on the instance, __exit__ closes exactly the one it kept."""
    names = {g.name for g in scopes}
    for g in scopes:
        sets = [c for c in uses['set'] if enclosing(c, (ast.FunctionDef,)) is g]
        resets = [c for c in uses['reset'] if enclosing(c, (ast.FunctionDef,)) is g]
        ok_pair = len(sets) == 1 and len(resets) == 1
        token = None
        if ok_pair:
            st = parent(sets[0])
            if isinstance(st, ast.Assign) and len(st.targets) == 1 and isinstance(st.targets[0], ast.Name):
                token = st.targets[0].id
            ok_pair = token is not None and len(resets[0].args) == 1 and isinstance(resets[0].args[0], ast.Name) and resets[0].args[0].id == token
        ck.expect('K3', ok_pair, g, f'{g.name}: exactly one set(), its token kept in a local and handed to the one reset()',
                  f'{g.name}: the activation does not pair one set() with one reset(<its token>)', instance=f'{g.name} pairing')
        if not ok_pair:
            continue
        # the reset sits in the finally of a try whose body holds the yield, and the set() comes before that try
        guarded = False
        for t in [n for n in ast.walk(g) if isinstance(n, ast.Try)]:
            in_body = any(isinstance(n, ast.Yield) for b in t.body for n in ast.walk(b))
            in_final = any(n is resets[0] for b in t.finalbody for n in ast.walk(b))
            set_before = not any(n is sets[0] for n in ast.walk(t))
            if in_body and in_final and set_before:
                guarded = True
        if not guarded:
            # without a finally the reset still runs on every exit if the generator is always resumed normally, i.e. if
            # Config.__exit__ never forwards the exception to the scope (scope.__exit__(None, None, None))
            closes = [n for n in ast.walk(exit_) if isinstance(n, ast.Call) and isinstance(n.func, ast.Attribute) and n.func.attr == '__exit__']
            never_forwarded = bool(closes) and all(len(n.args) == 3 and not n.keywords and all(isinstance(a, ast.Constant) and a.value is None for a in n.args) for n in closes)
            after_yield = any(isinstance(st, ast.Expr) and isinstance(st.value, ast.Yield) or (isinstance(st, ast.Assign) and isinstance(st.value, ast.Yield)) for st in g.body) and any(
                n is resets[0] for st in g.body for n in ast.walk(st)) and not any(isinstance(n, ast.Try) for n in ast.walk(g))
            guarded = never_forwarded and after_yield
        ck.expect('K3', guarded, resets[0], f'{g.name}: reset() runs in the finally of the try that holds the yield: the previous configuration is restored however the block is left',
                  f'{g.name}: reset() is not in a finally around the yield: when the body of the with block raises, the generator is resumed with the exception at the yield, the reset is skipped '
                  'and the configuration of the block stays active', instance=f'{g.name} restore on every exit', semantic=True)
        nyield = sum(1 for n in ast.walk(g) if isinstance(n, (ast.Yield, ast.YieldFrom)))
        ck.expect('K3', nyield == 1, g, f'{g.name} yields exactly once', f'{g.name} has {nyield} yields: it is not a single-scope context manager', instance=f'{g.name} single yield', nontrivial=False)
        # who may open a scope: only Config.__enter__
        callers = {enclosing(n, (ast.FunctionDef,)) for n in ast.walk(cfg.tree) if isinstance(n, ast.Call) and isinstance(n.func, ast.Name) and n.func.id == g.name}
        ck.expect('K2', callers <= {enter}, g, f'{g.name} is only opened by Config.__enter__', f'{g.name} (which sets the active configuration) is also opened from {sorted(getattr(c, "name", "<module>") for c in callers - {enter})}',
                  instance=f'{g.name} callers')
    me = enter.args.args[0].arg
    holder = None
    for i, p in enumerate(function_paths(enter)):
        if p.exit == 'raise':
            continue
        nodes = [ev[1] for ev in p.events if ev[0] in ('stmt', 'cond')] + ([p.node] if p.node is not None else [])
        opens = [n for n0 in nodes for n in ast.walk(n0) if isinstance(n, ast.Call) and isinstance(n.func, ast.Name) and n.func.id in names]
        enters = [n for n0 in nodes for n in ast.walk(n0) if isinstance(n, ast.Call) and isinstance(n.func, ast.Attribute) and n.func.attr == '__enter__']
        kept = None
        for n0 in nodes:
            for n in ast.walk(n0):
                # self.<attr>.append(scope) / self.<attr> = scope
                if isinstance(n, ast.Call) and isinstance(n.func, ast.Attribute) and n.func.attr == 'append' and isinstance(n.func.value, ast.Attribute) and isinstance(n.func.value.value, ast.Name) and n.func.value.value.id == me:
                    kept = (n.func.value.attr, 'stack')
                if isinstance(n, ast.Assign) and isinstance(n.targets[0], ast.Attribute) and isinstance(n.targets[0].value, ast.Name) and n.targets[0].value.id == me and not isinstance(n.value, ast.Constant):
                    kept = kept or (n.targets[0].attr, 'slot')
        good = len(opens) == 1 and len(enters) == 1 and kept is not None
        ck.expect('K3', good, enter, f'__enter__ opens one activation scope, enters it once and keeps it in self.{kept[0] if kept else "?"}',
                  f'a path of __enter__ opens {len(opens)} activation scope(s), enters {len(enters)} and keeps {"none" if kept is None else "one"} on the instance (exactly one of each is required)', instance=f'path {i}')
        if kept is not None:
            holder = kept
    if holder is not None:
        cls_level = config_cls.own.get(holder[0])
        ck.expect('K3', cls_level is None or isinstance(cls_level, ast.FunctionDef), config_cls.node, f'self.{holder[0]} is per instance', f'{holder[0]} is a class attribute: the open scopes are shared between instances and threads',
                  instance='scope holder per instance')
    me_x = exit_.args.args[0].arg
    exit_params = {a.arg for a in exit_.args.args[1:]}
    for i, p in enumerate(function_paths(exit_)):
        nodes = [ev[1] for ev in p.events if ev[0] in ('stmt', 'cond')] + ([p.node] if p.node is not None else [])
        exits = [n for n0 in nodes for n in ast.walk(n0) if isinstance(n, ast.Call) and isinstance(n.func, ast.Attribute) and n.func.attr == '__exit__']
        takes = [n for n0 in nodes for n in ast.walk(n0) if isinstance(n, ast.Attribute) and isinstance(n.value, ast.Name) and n.value.id == me_x and holder is not None and n.attr == holder[0]]
        if p.exit == 'raise' and not exits:
            ck.bad('K3', exit_, '__exit__ can raise before closing the activation scope', instance=f'exit path {i}')
            continue
        ck.expect('K3', len(exits) == 1 and bool(takes), exit_, f'__exit__ closes exactly the scope kept in self.{holder[0] if holder else "?"}',
                  f'a path of __exit__ closes {len(exits)} scope(s) (exactly the one kept by __enter__ is required)', instance=f'exit path {i}')
        cond_names = {n.id for ev in p.events if ev[0] == 'cond' for n in ast.walk(ev[1]) if isinstance(n, ast.Name)}
        ck.expect('K3', not (cond_names & exit_params), exit_, 'closing does not depend on the exception arguments', 'the closing path branches on the exception arguments', instance=f'exit path {i} unconditional', nontrivial=False)
        if p.exit == 'return' and isinstance(p.node, ast.Return) and p.node.value is not None:
            v = p.node.value
            falsy = (isinstance(v, ast.Constant) and not v.value) or any(v is x or any(v is y for y in ast.walk(x)) for x in exits) or (isinstance(v, ast.Call) and v in exits)
            ck.expect('K3', falsy, p.node, '__exit__ returns a falsy constant (or what the scope returns, which never swallows)', '__exit__ may return a truthy value and swallow the exception', instance=f'exit path {i} return')


def run(ctx, ck) -> None:
    world, table = ctx.world, ctx.table
    ck.trust(
        'CPython contextvars: ContextVar.reset(token) restores the value before the matching set; a new thread or context starts from the default',
        'the with statement calls __exit__ on every exit, normal or exceptional',
        'dataclasses.replace copies every field and overrides the named ones; frozen dataclasses reject attribute assignment',
    )
    cfg = world.module(CONFIG)
    config_cls = table.get(f'{CONFIG}.Config')
    state_cls = table.get(f'{CONFIG}.ConfigState')

    # ---------------------------------------------------------------- K1 ownership
    binding = cfg.defs.get('_config_var')
    if binding is None:
        raise AnalysisError(f'anchor vanished: {VAR}')
    ok_ctor = (
        isinstance(binding, (ast.Assign, ast.AnnAssign))
        and isinstance(binding.value, ast.Call)
        and world.qualify(cfg, binding.value.func) == 'contextvars.ContextVar'
    )
    ck.expect('K1', ok_ctor, f'{VAR}', 'bound at module level to contextvars.ContextVar(...)',
              'the active configuration is not held in a contextvars.ContextVar (different isolation semantics between threads/contexts)',
              instance='kind')
    if ok_ctor:
        default = next((kw.value for kw in binding.value.keywords if kw.arg == 'default'), None)
        if isinstance(default, ast.Name):
            # a module-level name bound exactly once stands for its value
            stores = [n for n in ast.walk(cfg.tree) if isinstance(n, ast.Name) and n.id == default.id and isinstance(n.ctx, ast.Store)]
            d = cfg.defs.get(default.id)
            if len(stores) == 1 and isinstance(d, ast.Assign) and enclosing(d, (ast.FunctionDef, ast.ClassDef)) is None:
                default = d.value
        is_state = (
            isinstance(default, ast.Call)
            and world.qualify(cfg, default.func) == f'{CONFIG}.ConfigState'
            and not default.args
            and not default.keywords
        )
        ck.expect('K1', is_state, VAR, 'default=ConfigState() (the documented defaults)',
                  'the context variable has no default ConfigState(): a fresh thread/context would not see the defaults', instance='default')
    nbind = 0
    for module in world.modules.values():
        for node in ast.walk(module.tree):
            if isinstance(node, ast.Global) and '_config_var' in node.names:
                ck.bad('K1', node, 'global rebinding of the context variable')
            if isinstance(node, (ast.Assign, ast.AugAssign, ast.AnnAssign)):
                targets = node.targets if isinstance(node, ast.Assign) else [node.target]
                for t in targets:
                    for n in ast.walk(t):
                        if isinstance(n, ast.Name) and n.id == '_config_var' and isinstance(n.ctx, ast.Store):
                            if module is cfg and enclosing(node, (ast.FunctionDef, ast.ClassDef)) is None:
                                nbind += 1
                            else:
                                ck.bad('K1', node, 'the context variable is rebound outside its module-level definition')
    ck.expect('K1', nbind == 1, VAR, 'bound exactly once', f'bound {nbind} times at module level', instance='single binding')

    refs = _var_refs(world)
    ck.floor('K1', len(refs), 4, 'references to the context variable')
    uses: dict[str, list[ast.AST]] = {'get': [], 'set': [], 'reset': []}
    for r in refs:
        module = module_of(r)
        if isinstance(r, ast.ImportFrom) or module is not cfg:
            ck.bad('K1', r, 'the context variable is referenced outside config.py')
            continue
        p = parent(r)
        if isinstance(r, ast.Name) and isinstance(r.ctx, ast.Store):
            continue
        if isinstance(p, ast.Attribute) and isinstance(parent(p), ast.Call) and parent(p).func is p and p.attr in uses:
            uses[p.attr].append(parent(p))
        elif (isinstance(p, ast.Assign) and len(p.targets) == 1 and isinstance(p.targets[0], ast.Name) and isinstance(parent(p), ast.ClassDef)
              and not any(isinstance(n, ast.Attribute) and n.attr == p.targets[0].id for m in world.modules.values() for n in ast.walk(m.tree))):
            # a class-level alias that nothing reads (its uses were resolved to the variable itself by the normaliser)
            ck.ok('K1', r, f'class-level alias {p.targets[0].id} of the context variable, never read through the class or its instances', instance=f'alias {p.targets[0].id}', nontrivial=False)
        else:
            ck.incomplete('K1', r, f'the context variable escapes as a value ({ast.unparse(p) if p is not None else "?"}); aliasing is outside the analysed language')
    ck.ok('K1', VAR, f'{len(refs)} references, all inside config.py, all of the form _config_var.get/set/reset(...)', instance='private')

    # ---------------------------------------------------------------- K2 who may write
    enter = table.resolve(config_cls, '__enter__')
    exit_ = table.resolve(config_cls, '__exit__')
    init = table.resolve(config_cls, '__init__')
    if enter is None or exit_ is None or not isinstance(enter.node, ast.FunctionDef) or not isinstance(exit_.node, ast.FunctionDef):
        raise AnalysisError('anchor vanished: Config.__enter__/__exit__')
    scopes = _activation_generators(world, cfg, uses)
    scoped = bool(scopes) and all(enclosing(c, (ast.FunctionDef,)) in scopes for c in uses['set'] + uses['reset'])
    if scoped:
        _scoped_activation(ck, world, cfg, config_cls, enter.node, exit_.node, scopes, uses)
    for call in uses['set']:
        fn = enclosing(call, (ast.FunctionDef,))
        if scoped:
            continue
        ck.expect('K2', fn is enter.node, call, 'set() inside Config.__enter__',
                  'the active configuration is set outside Config.__enter__ (no matching restore)')
    for call in uses['reset']:
        fn = enclosing(call, (ast.FunctionDef,))
        if scoped:
            continue
        ck.expect('K2', fn is exit_.node, call, 'reset() inside Config.__exit__',
                  'the active configuration is reset outside Config.__exit__')
    ck.floor('K2', len(uses['set']), 1, 'set sites')
    ck.floor('K2', len(uses['reset']), 1, 'reset sites')

    # ---------------------------------------------------------------- K3 pairing
    def calls_on_path(path, calls):
        found = []
        ids = {id(c) for c in calls}
        for ev in path.events:
            nodes = []
            if ev[0] == 'stmt':
                nodes = [ev[1]]
            elif ev[0] == 'cond':
                nodes = [ev[1]]
            for n0 in nodes:
                for n in ast.walk(n0):
                    if id(n) in ids:
                        found.append((n, ev))
        if path.node is not None:
            for n in ast.walk(path.node):
                if id(n) in ids:
                    found.append((n, ('exit', path.node)))
        return found

    token_attr = None
    installed = None
    if scoped:
        installed = _scoped_installed(enter.node, scopes)
    for i, path in enumerate(function_paths(enter.node) if not scoped else []):
        if path.exit == 'raise':
            hits = calls_on_path(path, uses['set'])
            ck.expect('K3', not hits, enter.node, 'no set() before a raise', 'a path of __enter__ sets the variable and then raises: __exit__ will not run', instance=f'raise path {i}')
            continue
        hits = calls_on_path(path, uses['set'])
        if len(hits) != 1:
            ck.bad('K3', enter.node, f'a path of __enter__ performs {len(hits)} set() calls (exactly one is required)', instance=f'path {i}')
            continue
        call, ev = hits[0]
        st = ev[1]
        stored = (
            isinstance(st, ast.Assign)
            and st.value is call
            and len(st.targets) == 1
            and isinstance(st.targets[0], ast.Attribute)
            and isinstance(st.targets[0].value, ast.Name)
            and st.targets[0].value.id == enter.node.args.args[0].arg
        )
        if not stored:
            ck.bad('K3', call, 'the token returned by set() is not stored on the Config instance (self.<attr> = _config_var.set(...)); a token kept in a class attribute or global is shared between instances/threads', instance=f'path {i}')
            continue
        attr = st.targets[0].attr
        if token_attr not in (None, attr):
            ck.bad('K3', call, 'different paths store the token in different attributes', instance=f'path {i}')
        token_attr = attr
        env = path_env(path, upto=st)
        installed = term(call.args[0], env) if call.args else None
        ck.ok('K3', enter.node, f'exactly one set(), token stored in self.{attr}', instance=f'path {i}')
    # token attribute must not be a class attribute
    if token_attr is not None and token_attr in config_cls.own and not isinstance(config_cls.own[token_attr], ast.FunctionDef):
        ck.bad('K3', config_cls.node, f'{token_attr} is also a class attribute')
    self_exit = exit_.node.args.args[0].arg
    exit_params = {a.arg for a in exit_.node.args.args[1:]}
    for i, path in enumerate(function_paths(exit_.node) if not scoped else []):
        hits = calls_on_path(path, uses['reset'])
        if path.exit == 'raise' and not hits:
            ck.bad('K3', exit_.node, '__exit__ can raise before restoring the configuration', instance=f'path {i}')
            continue
        if len(hits) != 1:
            ck.bad('K3', exit_.node, f'a path of __exit__ performs {len(hits)} reset() calls: the previous configuration is not restored exactly once (e.g. only when no exception is propagating)', instance=f'path {i}')
            continue
        call, _ = hits[0]
        env = path_env(path)
        arg = term(call.args[0], env) if call.args else None
        want = ('attr', ('var', self_exit), token_attr)
        ck.expect('K3', arg == want, call, f'reset(self.{token_attr}) with the token stored by __enter__',
                  f'reset() is called with {show(arg)} instead of the token stored by __enter__ (self.{token_attr})', instance=f'path {i}')
        # no branch on the exception arguments
        cond_names = {n.id for ev in path.events if ev[0] == 'cond' for n in ast.walk(ev[1]) if isinstance(n, ast.Name)}
        ck.expect('K3', not (cond_names & exit_params), exit_.node, 'restore does not depend on the exception arguments',
                  'the restore path branches on the exception arguments', instance=f'path {i} unconditional', nontrivial=False)
        if path.exit == 'return' and isinstance(path.node, ast.Return) and path.node.value is not None:
            v = path.node.value
            falsy = isinstance(v, ast.Constant) and not v.value
            ck.expect('K3', falsy, path.node, '__exit__ returns a falsy constant', '__exit__ may return a truthy value and swallow the exception', instance=f'path {i} return')
    ck.floor('K3', len(function_paths(exit_.node)), 1, 'paths of __exit__')

    # ---------------------------------------------------------------- K4 inheritance
    def is_current_value(t) -> bool:
        return t == ('call', ('attr', ('var', '_config_var'), 'get'), (), ()) or t == ('call', ('attr', ('var', 'cls'), 'instance'), (), ()) or t == ('call', ('attr', ('var', 'Config'), 'instance'), (), ())

    def is_replace_of_current(t, kwargs_name) -> bool:
        return (
            isinstance(t, tuple)
            and t[0] == 'call'
            and t[1] in (('var', 'replace'), ('attr', ('var', 'dataclasses'), 'replace'))
            and len(t[2]) == 1
            and is_current_value(t[2][0])
            and t[3] == (('**', ('var', kwargs_name)),)
        )

    k4_decided = _inheritance_by_evaluation(ctx, ck, config_cls, cfg)
    k4_start = len(ck.obs)
    found_k4 = False
    if installed is not None:
        self_enter = enter.node.args.args[0].arg
        kw_init = init.node.args.kwarg.arg if init and isinstance(init.node, ast.FunctionDef) and init.node.args.kwarg else None
        if installed[0] == 'attr' and installed[1] == ('var', self_enter):
            attr = installed[2]
            # find the assignment(s) of self.<attr> in __init__
            if init is not None and isinstance(init.node, ast.FunctionDef) and kw_init:
                self_init = init.node.args.args[0].arg
                for path in function_paths(init.node):
                    if path.exit == 'raise':
                        continue
                    val = None
                    env: dict = {}
                    for ev in path.events:
                        if ev[0] == 'stmt':
                            st = ev[1]
                            if isinstance(st, ast.Assign) and any(
                                isinstance(t, ast.Attribute) and isinstance(t.value, ast.Name) and t.value.id == self_init and t.attr == attr
                                for t in st.targets
                            ):
                                val = term(st.value, env)
                            env = path_env(type(path)([ev]), env)
                    found_k4 = True
                    ck.expect('K4', val is not None and is_replace_of_current(val, kw_init), init.node,
                              f'self.{attr} = replace(<current value of the variable>, **{kw_init}): outer settings inherited, named ones overridden',
                              f'the configuration installed by __enter__ is {show(val)}: it does not inherit the currently active configuration via replace(current, **kwargs)')
        else:
            kw = None
            found_k4 = True
            ck.expect('K4', False, enter.node, '', f'__enter__ installs {show(installed)}, which is not derived from the instance state built from the current configuration')
    if not found_k4:
        ck.incomplete('K4', enter.node, 'could not determine the value installed by __enter__')
    # replace must be dataclasses.replace
    if k4_decided:
        # the written form replace(current, **kwargs) is one way of inheriting; where it is written another way the evaluation stands
        ck.obs[:] = [o for i, o in enumerate(ck.obs) if not (i >= k4_start and o.rule.endswith('K4') and o.status != 'ok')]
    uses_replace = any(isinstance(n, ast.Name) and n.id == 'replace' and isinstance(n.ctx, ast.Load) for n in ast.walk(cfg.tree))
    if uses_replace:
        ck.expect('K4', world.qualify(cfg, 'replace') == 'dataclasses.replace', f'{CONFIG}.replace', 'replace is dataclasses.replace',
                  'replace is not dataclasses.replace', nontrivial=False)
    inst = table.resolve(config_cls, 'instance')
    if inst is None or not isinstance(inst.node, ast.FunctionDef):
        raise AnalysisError('anchor vanished: Config.instance')
    rets = [p for p in function_paths(inst.node) if p.exit == 'return']
    good = bool(rets) and all(
        term(p.node.value, path_env(p)) == ('call', ('attr', ('var', '_config_var'), 'get'), (), ()) for p in rets
    )
    ck.expect('K4', good, inst.node, 'Config.instance() returns _config_var.get()', 'Config.instance() does not return the current value of the context variable')

    # ---------------------------------------------------------------- K5 immutability
    frozen = False
    for deco in state_cls.node.decorator_list:
        if isinstance(deco, ast.Call) and world.qualify(cfg, deco.func) == 'dataclasses.dataclass':
            frozen = any(kw.arg == 'frozen' and isinstance(kw.value, ast.Constant) and kw.value.value is True for kw in deco.keywords)
    ck.expect('K5', frozen, state_cls.node, 'ConfigState is @dataclass(frozen=True)', 'ConfigState is not a frozen dataclass: an active configuration could be mutated in place, leaking across blocks and threads')
    # every field takes part in equality and hashing: the captured state is static jit metadata, two configurations
    # that differ in any setting must compare unequal or a compiled trace of one is replayed for the other
    for deco in state_cls.node.decorator_list:
        if isinstance(deco, ast.Call):
            for kw in deco.keywords:
                if kw.arg in ('eq', 'unsafe_hash') and isinstance(kw.value, ast.Constant) and kw.value.value is False and kw.arg == 'eq':
                    ck.bad('K5', deco, 'ConfigState is declared with eq=False: identity comparison of captured configurations defeats jit caching and comparison semantics', instance='eq')
    nfields = 0
    for st in state_cls.node.body:
        if isinstance(st, ast.AnnAssign):
            nfields += 1
            v = st.value
            excluded = None
            if isinstance(v, ast.Call) and world.qualify(cfg, v.func) in ('dataclasses.field',):
                for kw in v.keywords:
                    # (hash=False alone is harmless: equal configurations still hash alike, and equality still sees the field)
                    if kw.arg == 'compare' and isinstance(kw.value, ast.Constant) and kw.value.value is False:
                        excluded = kw.arg
            ck.expect('K5', excluded is None, st, f'setting `{ast.unparse(st.target)}` takes part in the equality of the configuration',
                      f'setting `{ast.unparse(st.target)}` is declared with compare=False: two captured configurations that differ only in it compare equal, so a jit cache entry '
                      'traced for one lazy inverse is replayed for another (the second inverse uses the first one\'s setting)', instance=f'field {ast.unparse(st.target)} compared', nontrivial=False,
                      semantic=True)  # the presence of the keyword decides
    ck.floor('K5', nfields, 4, 'configuration settings')
    for module in world.modules.values():
        for node in ast.walk(module.tree):
            if isinstance(node, ast.Call) and dotted(node.func) == 'object.__setattr__':
                tgt = ast.unparse(node.args[0]) if node.args else ''
                if 'config' in tgt.lower() or module is cfg:
                    ck.bad('K5', node, 'object.__setattr__ bypasses the frozen configuration state')
    MUTATORS = {'update', 'pop', 'popitem', 'setdefault', 'clear', '__setitem__', '__delitem__'}
    READERS = {'get', 'items', 'keys', 'values', 'copy', '__contains__', '__getitem__'}
    nuses = 0
    for module in world.modules.values():
        for node in ast.walk(module.tree):
            if isinstance(node, ast.Attribute) and node.attr == 'solver_options':
                nuses += 1
                p = parent(node)
                fn = enclosing(node, (ast.FunctionDef,))
                if isinstance(node.ctx, (ast.Store, ast.Del)):
                    ck.bad('K5', node, 'solver_options of a configuration is assigned')
                elif isinstance(p, ast.Attribute) and isinstance(parent(p), ast.Call) and parent(p).func is p:
                    if p.attr in MUTATORS:
                        ck.bad('K5', node, f'the shared solver_options dict is mutated in place (.{p.attr}): the change leaks into every block and thread using that configuration')
                    elif p.attr in READERS:
                        ck.ok('K5', node, f'read-only use .{p.attr}()', instance=f'use {nuses}')
                    else:
                        ck.incomplete('K5', node, f'unknown method .{p.attr} on solver_options')
                elif isinstance(p, ast.Subscript) and p.value is node:
                    if isinstance(p.ctx, (ast.Store, ast.Del)):
                        ck.bad('K5', node, 'an item of the shared solver_options dict is assigned in place: the change leaks into every block and thread using that configuration')
                    else:
                        ck.ok('K5', node, 'item read', instance=f'use {nuses}')
                elif isinstance(p, ast.Call) and dotted(p.func) in ('dict', 'copy.copy', 'copy.deepcopy', 'len'):
                    ck.ok('K5', node, f'copied/read through {dotted(p.func)}', instance=f'use {nuses}')
                elif isinstance(p, (ast.Assign, ast.AnnAssign)) and fn is not None:
                    # alias: look for in-place mutation of the alias in the same function
                    names = [t.id for t in (p.targets if isinstance(p, ast.Assign) else [p.target]) if isinstance(t, ast.Name)]
                    mutated = False
                    for n in ast.walk(fn):
                        if isinstance(n, ast.Subscript) and isinstance(n.ctx, (ast.Store, ast.Del)) and isinstance(n.value, ast.Name) and n.value.id in names:
                            mutated = True
                        if isinstance(n, ast.Call) and isinstance(n.func, ast.Attribute) and n.func.attr in MUTATORS and isinstance(n.func.value, ast.Name) and n.func.value.id in names:
                            mutated = True
                    ck.expect('K5', not mutated, node, 'aliased but never mutated', 'solver_options is aliased without a copy and then mutated in place: the change leaks into the shared configuration', instance=f'use {nuses}')
                elif isinstance(p, ast.keyword) or isinstance(p, ast.Call):
                    ck.incomplete('K5', node, 'solver_options is passed to a call without a copy; the callee may mutate it')
                else:
                    ck.ok('K5', node, f'read in {type(p).__name__}', instance=f'use {nuses}', nontrivial=False)
    ck.floor('K5', nuses, 1, 'uses of solver_options')

    # ---------------------------------------------------------------- K6 capture
    inv = table.get(f'{CORE}.InverseOperator')
    inv_init = table.resolve(inv, '__init__')
    if inv_init is None or not isinstance(inv_init.node, ast.FunctionDef):
        raise AnalysisError('anchor vanished: InverseOperator.__init__')
    cfg_field = next((f for f in table.fields(inv) if f.name == 'config'), None)
    ck.expect('K6', cfg_field is not None and cfg_field.static, inv.node, 'InverseOperator.config is a static field (metadata, not traced)',
              'InverseOperator has no static field `config` holding the captured configuration')
    self_name = inv_init.node.args.args[0].arg
    npaths = 0
    for i, path in enumerate(function_paths(inv_init.node)):
        if path.exit == 'raise':
            continue
        npaths += 1
        captured = None
        for st in path.stmts():
            if isinstance(st, ast.Assign) and any(
                isinstance(t, ast.Attribute) and isinstance(t.value, ast.Name) and t.value.id == self_name and t.attr == 'config' for t in st.targets
            ):
                captured = st.value
        from ..terms import facts as _pfacts

        env6 = path_env(path)
        cap_t = term(captured, env6) if captured is not None else None
        inst_t = ('call', ('attr', ('var', 'Config'), 'instance'), (), ())
        good = cap_t == inst_t and (captured is None or 'Config' in ast.unparse(captured) or True) and world.qualify(module_of(inv_init.node), 'Config') == f'{CONFIG}.Config'
        if not good and cap_t is not None and cap_t[0] == 'var':
            # an explicit configuration handed to the constructor: an optional parameter whose default (None) means "the
            # active one"; nothing in the package passes it, so every inverse the library creates captures the active one
            a = inv_init.node.args
            params = {p.arg: d for p, d in list(zip(a.args[len(a.args) - len(a.defaults):], a.defaults)) + [(p, d) for p, d in zip(a.kwonlyargs, a.kw_defaults) if d is not None]}
            d = params.get(cap_t[1])
            fs6 = _pfacts(path)
            not_none = ('isnot', frozenset({cap_t, ('const', 'None')})) in fs6
            passed = False
            for m in world.modules.values():
                for n in ast.walk(m.tree):
                    if isinstance(n, ast.Call) and (world.qualify(m, n.func) or '').endswith('.InverseOperator') or (isinstance(n, ast.Call) and isinstance(n.func, ast.Name) and n.func.id == 'InverseOperator'):
                        if any(k.arg == cap_t[1] for k in n.keywords) or len(n.args) > 1:
                            passed = True
            if isinstance(d, ast.Constant) and d.value is None and not_none and not passed:
                good = True
        ck.expect('K6', good, inv_init.node, 'self.config = Config.instance() on this non-raising path',
                  f'a lazy inverse does not capture the configuration active at its construction (self.config = {ast.unparse(captured) if captured is not None else "<unassigned>"})', instance=f'path {i}')
    ck.floor('K6', npaths, 1, 'non-raising constructor paths')
    for sub in table.subclasses(inv, strict=True):
        r = table.resolve(sub, '__init__')
        if r is not None and r.node is not inv_init.node:
            calls_super = any(
                isinstance(n, ast.Call) and isinstance(n.func, ast.Attribute) and n.func.attr == '__init__' for n in ast.walk(r.node)
            )
            ck.expect('K6', calls_super, r.node, 'subclass constructor chains to InverseOperator.__init__', 'subclass of InverseOperator bypasses the capturing constructor')

    # K6b: a lazy inverse is never re-created from an existing one (the copy would capture the configuration active
    # at copy time): no method that runs with self: InverseOperator builds a new instance of its own class
    nscan = 0
    for k in inv.mro:
        for mname, node in k.own.items():
            if not isinstance(node, ast.FunctionDef) or mname == '__init__' or not node.args.args:
                continue
            nscan += 1
            sname = node.args.args[0].arg
            for n in ast.walk(node):
                if not isinstance(n, ast.Call):
                    continue
                f = n.func
                rebuilt = (
                    (isinstance(f, ast.Call) and isinstance(f.func, ast.Name) and f.func.id == 'type' and len(f.args) == 1 and isinstance(f.args[0], ast.Name) and f.args[0].id == sname)
                    or (isinstance(f, ast.Attribute) and f.attr == '__class__' and isinstance(f.value, ast.Name) and f.value.id == sname)
                )
                if rebuilt:
                    carried = any(isinstance(x, ast.Attribute) and x.attr == 'config' for x in ast.walk(node))
                    ck.expect('K6', carried, n, 'the copy carries the captured configuration over',
                              f'{k.name}.{mname} rebuilds an operator of the class of self ({ast.unparse(n)[:40]}): when self is a lazy solver inverse its constructor runs again and captures the '
                              'configuration active *now* (e.g. at reduce() time), not the one active when the inverse was created', instance=f'{k.name}.{mname} re-creation')
    ck.floor('K6', nscan, 20, 'methods that can run with self: InverseOperator')

    # ---------------------------------------------------------------- K7 use
    mv = table.resolve(inv, 'mv')
    if mv is None or not isinstance(mv.node, ast.FunctionDef):
        raise AnalysisError('anchor vanished: InverseOperator.mv')
    k7_decided = _use_by_evaluation(ctx, ck, inv, mv.node)
    k7_start = len(ck.obs)
    self_mv = mv.node.args.args[0].arg
    solve_calls = [n for n in ast.walk(mv.node) if isinstance(n, ast.Call) and world.qualify(module_of(n), n.func) == 'lineax.linear_solve']
    ck.floor('K7', len(solve_calls), 1, 'linear_solve call sites in InverseOperator.mv')
    cfg_t = ('attr', ('var', self_mv), 'config')
    for path in function_paths(mv.node):
        if path.exit != 'return':
            continue
        env = path_env(path)
        for call in solve_calls:
            kws = {kw.arg: term(kw.value, env) for kw in call.keywords if kw.arg}
            want = {
                'solver': ('attr', cfg_t, 'solver'),
                'throw': ('attr', cfg_t, 'solver_throw'),
            }
            for name, t in want.items():
                ck.expect('K7', kws.get(name) == t, call, f'{name}= comes from self.config',
                          f'the solver call takes {name}={show(kws.get(name))} instead of the captured self.config.{t[2]}', instance=name)
            opts = kws.get('options')
            copy_of_cfg = ('call', ('attr', ('attr', cfg_t, 'solver_options'), 'copy'), (), ())
            raw_opts = ('attr', cfg_t, 'solver_options')

            def fresh(t) -> bool:
                if t == copy_of_cfg or (isinstance(t, tuple) and t[0] == 'call' and t[1] == ('var', 'dict') and t[2] == (raw_opts,)):
                    return True
                # d | {...}: a new dictionary when written as an expression; an update in place of d when written d |= {...}
                if isinstance(t, tuple) and t[0] == 'binop' and t[1] == '|':
                    if fresh(t[2]):
                        return True
                    in_place = any(ev[0] == 'stmt' and isinstance(ev[1], ast.AugAssign) and isinstance(ev[1].op, ast.BitOr) for ev in path.events)
                    return not in_place and raw_opts in (t[2], t[3])
                return False

            good = fresh(opts)
            ck.expect('K7', good, call, 'options= is a copy of self.config.solver_options',
                      f'the solver call takes options={show(opts)} instead of a copy of the captured self.config.solver_options', instance='options',
                      semantic=opts is not None and raw_opts in list(_subterms19(opts)))
        break
    cbs = [n for n in ast.walk(mv.node) if isinstance(n, ast.Call) and world.qualify(module_of(n), n.func) == 'jax.debug.callback']
    ret_paths = [p for p in function_paths(mv.node) if p.exit == 'return']
    env_cb = path_env(ret_paths[0]) if ret_paths else {}
    for cb in cbs:
        t = term(cb.args[0], env_cb) if cb.args else None
        ck.expect('K7', t == ('attr', cfg_t, 'solver_callback'), cb, 'callback comes from self.config',
                  f'the solver callback is {show(t)} instead of the captured self.config.solver_callback', instance='callback')
    if k7_decided:
        # the written form of the solver call is kept only where it confirms
        ck.obs[k7_start:] = [o for o in ck.obs[k7_start:] if o.status == 'ok']
    # readers of the active configuration
    graph = CallGraph(world, table)
    ctx.cache['callgraph'] = graph
    readers: dict[str, ast.AST] = {}
    for module in world.modules.values():
        for node in ast.walk(module.tree):
            hit = False
            if isinstance(node, ast.Call):
                q = world.qualify(module, node.func)
                if q in (f'{CONFIG}.Config.instance', f'{CONFIG}.Config'):
                    hit = True
                if isinstance(node.func, ast.Attribute) and node.func.attr in ('get',) and world.qualify(module, node.func.value) == VAR:
                    hit = True
            if hit:
                fn = enclosing(node, (ast.FunctionDef,))
                top = fn
                while top is not None and enclosing(top, (ast.FunctionDef,)) is not None:
                    top = enclosing(top, (ast.FunctionDef,))
                if top is not None:
                    readers[qualname(top)] = node
    allowed = {f'{CONFIG}.Config.__init__', f'{CONFIG}.Config.instance', f'{CORE}.InverseOperator.__init__'}
    roots = [q for q, fn in graph.functions.items() if fn.name in ('mv', '__call__')]
    ck.floor('K7', len(roots), 20, 'mv/__call__ roots')
    reach = graph.reachable(roots)
    for q, node in sorted(readers.items()):
        if q in allowed:
            ck.ok('K7', node, 'documented reader of the active configuration (at construction time)', instance=q.split('.')[-2] + '.' + q.split('.')[-1])
            continue
        if q in reach:
            root = next((r for r in roots if graph.path(r, q)), None)
            chain = ' -> '.join(graph.path(root, q) or []) if root else q
            ck.bad('K7', node, f'the active configuration is read at application time (reachable: {chain}); a lazy inverse must use the configuration captured at construction')
        else:
            ck.ok('K7', node, 'reads the active configuration, but is not reachable from any mv/__call__', instance=q, nontrivial=False)


# ---------------------------------------------------------------------- positive controls
def controls(world: World) -> list[Control]:
    return [
        Control(
            'reset-only-without-exception',
            lambda w: edit_def(w, CONFIG, 'Config.__exit__', lambda fn: replace_stmt(
                fn, '_config_var.reset(self.token)', 'if exc_type is None:\n    _config_var.reset(self.token)')),
            'C19.K3',
        ),
        Control(
            'options-not-copied',
            lambda w: edit_def(w, CORE, 'InverseOperator.mv', lambda fn: replace_expr(
                fn, 'self.config.solver_options.copy()', 'self.config.solver_options')),
            'C19.K5',
        ),
        Control(
            'config-read-in-mv',
            lambda w: edit_def(w, CORE, 'InverseOperator.mv', lambda fn: replace_expr(
                fn, 'self.config.solver', 'Config.instance().solver')),
            'C19.K7',
        ),
    ]

"""How a constructor parameter reaches the field it is stored in (stored-parameter integrity).

Classifies, per non-raising path, the term assigned to ``self.<field>``:
  'identity'  the parameter itself, possibly normalised to a tuple ((p,), tuple(p), cast(T, p)) or jnp.asarray(p)
  'cast'      passes through astype(...) / asarray(..., dtype=...) / a tree.map of such a cast: lossy for wider data
  'filtered'  a comprehension with a filter, or a re-pairing of several parameters (zip): elements can be dropped
  'other'     anything else
"""

from __future__ import annotations

import ast

from .paths import function_paths
from .terms import path_env, show, term


def classify(t, param: str, depth: int = 0) -> str:
    if depth > 12 or not isinstance(t, tuple) or not t:
        return 'other'
    if t == ('var', param):
        return 'identity'
    k = t[0]
    if k == 'tuple' and len(t) == 2:
        return classify(t[1], param, depth + 1)
    if k == 'ifexp':
        a, b = classify(t[2], param, depth + 1), classify(t[3], param, depth + 1)
        for bad in ('cast', 'filtered', 'other'):
            if bad in (a, b):
                return bad
        return 'identity'
    if k == 'call':
        f, args, kws = t[1], t[2], dict(t[3])
        fs = show(f)
        if fs in ('tuple', 'list') and len(args) == 1:
            return classify(args[0], param, depth + 1)
        if fs in ('cast', 'typing.cast') and len(args) == 2:
            return classify(args[1], param, depth + 1)
        if fs in ('jnp.asarray', 'jnp.array', 'np.asarray', 'jax.device_put') and args:
            inner = classify(args[0], param, depth + 1)
            if 'dtype' in kws or len(args) > 1:
                return 'cast' if inner in ('identity', 'cast') else inner
            return inner
        if f[0] == 'attr' and f[2] == 'astype':
            inner = classify(f[1], param, depth + 1)
            return 'cast' if inner in ('identity', 'cast') else inner
        if fs in ('jax.tree.map',) and len(args) >= 2 and args[0][0] == 'lambda' and len(args[0][1]) == 1:
            body = classify(args[0][2], args[0][1][0], depth + 1)
            src = classify(args[1], param, depth + 1)
            if src == 'identity':
                return body if body in ('identity', 'cast') else 'other'
            return src
        return 'other'
    if k == 'comp':
        gens = t[2]
        if any(g[2] for g in gens):
            return 'filtered'
        if any('zip(' in show(g[1]) for g in gens):
            return 'filtered'
        return 'other'
    return 'other'


def stored(init: ast.FunctionDef, field: str):
    """[(path index, substituted term stored in self.<field>)] over the non-raising paths."""
    s = init.args.args[0].arg
    out = []
    for i, p in enumerate(function_paths(init)):
        if p.exit == 'raise':
            continue
        val = None
        for st in p.stmts():
            if isinstance(st, ast.Assign) and any(isinstance(t, ast.Attribute) and isinstance(t.value, ast.Name) and t.value.id == s and t.attr == field for t in st.targets):
                val = term(st.value, path_env(p, upto=st))
        out.append((i, val))
    return out


def integrity(init: ast.FunctionDef, field: str, param: str):
    """Worst classification over the paths and an example term."""
    worst, example = 'identity', None
    order = {'identity': 0, 'other': 1, 'cast': 2, 'filtered': 3}
    for _, t in stored(init, field):
        if t is None:
            continue
        c = classify(t, param)
        if order[c] > order[worst]:
            worst, example = c, t
    return worst, example

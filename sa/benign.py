"""Behaviour-preserving variants of the whole tree (self-test: the checks must stay silent on them)."""

from __future__ import annotations

import ast
import builtins

from .loader import World


def _all_modules(world: World, edit) -> World:
    overrides = dict(world.overrides)
    for name, module in world.modules.items():
        tree = ast.parse(module.source)
        edit(tree)
        ast.fix_missing_locations(tree)
        overrides[module.relpath] = ast.unparse(tree) + '\n'
    return World(world.root, overrides)


def reformat(world: World) -> World:
    """ast round trip: drops comments, normalises layout, parentheses and quotes."""
    return _all_modules(world, lambda tree: None)


class _RenameLocals(ast.NodeTransformer):
    """Renames every local variable of every function (not parameters, not globals/nonlocals, not names
    that are also read from an enclosing scope before assignment)."""

    def __init__(self, prefix: str = 'loc'):
        self.prefix = prefix

    def visit_FunctionDef(self, node: ast.FunctionDef) -> ast.AST:
        self._rename(node)
        return node

    def visit_Lambda(self, node: ast.Lambda) -> ast.AST:
        return node

    def _rename(self, fn: ast.FunctionDef) -> None:
        params = {a.arg for a in fn.args.posonlyargs + fn.args.args + fn.args.kwonlyargs}
        if fn.args.vararg:
            params.add(fn.args.vararg.arg)
        if fn.args.kwarg:
            params.add(fn.args.kwarg.arg)
        declared: set[str] = set()
        stores: set[str] = set()
        nested_defs: set[str] = set()

        def scan(n: ast.AST, top: bool) -> None:
            for c in ast.iter_child_nodes(n):
                if isinstance(c, (ast.Global, ast.Nonlocal)):
                    declared.update(c.names)
                if isinstance(c, (ast.FunctionDef, ast.ClassDef)):
                    nested_defs.add(c.name)
                    if isinstance(c, ast.FunctionDef):
                        # names used free inside nested functions refer to this scope: still renamed consistently
                        scan(c, False)
                    continue
                if isinstance(c, ast.Lambda):
                    scan(c, False)
                    continue
                if isinstance(c, ast.Name) and isinstance(c.ctx, (ast.Store, ast.Del)) and top:
                    stores.add(c.id)
                if isinstance(c, (ast.ListComp, ast.SetComp, ast.GeneratorExp, ast.DictComp)):
                    # comprehension targets live in their own scope: rename them too, consistently
                    for g in c.generators:
                        for t in ast.walk(g.target):
                            if isinstance(t, ast.Name):
                                stores.add(t.id)
                scan(c, top)

        scan(fn, True)
        nested_params: set[str] = set()
        for n in ast.walk(fn):
            if n is not fn and isinstance(n, (ast.FunctionDef, ast.Lambda)):
                a = n.args
                nested_params.update(x.arg for x in a.posonlyargs + a.args + a.kwonlyargs)
        local = {s for s in stores if s not in params and s not in declared and s not in nested_defs and s not in nested_params and not hasattr(builtins, s) and s != '_'}
        mapping = {name: f'{self.prefix}_{i}_{name[:1]}' for i, name in enumerate(sorted(local))}

        def make(mp):
            class R(ast.NodeTransformer):
                def visit_Name(self, n: ast.Name) -> ast.AST:
                    if n.id in mp:
                        return ast.copy_location(ast.Name(id=mp[n.id], ctx=n.ctx), n)
                    return n

                def _nested(self, n):
                    a = n.args
                    own = {x.arg for x in a.posonlyargs + a.args + a.kwonlyargs}
                    if a.vararg:
                        own.add(a.vararg.arg)
                    if a.kwarg:
                        own.add(a.kwarg.arg)
                    if isinstance(n, ast.FunctionDef):
                        comp_targets = {id(t) for c in ast.walk(n) if isinstance(c, (ast.ListComp, ast.SetComp, ast.GeneratorExp, ast.DictComp))
                                        for g in c.generators for t in ast.walk(g.target)}
                        for x in ast.walk(n):
                            if isinstance(x, ast.Name) and isinstance(x.ctx, ast.Store) and id(x) not in comp_targets:
                                own.add(x.id)
                    inner = {k: v for k, v in mp.items() if k not in own}
                    sub = make(inner)()
                    if isinstance(n, ast.FunctionDef):
                        n.body = [sub.visit(st) for st in n.body]
                        n.decorator_list = [self.visit(d) for d in n.decorator_list]
                    else:
                        n.body = sub.visit(n.body)
                    return n

                def visit_FunctionDef(self, n: ast.FunctionDef) -> ast.AST:
                    return self._nested(n)

                def visit_Lambda(self, n: ast.Lambda) -> ast.AST:
                    return self._nested(n)

            return R

        R = make(mapping)
        for i, st in enumerate(fn.body):
            fn.body[i] = R().visit(st)


def rename_locals(world: World) -> World:
    return _all_modules(world, lambda tree: _RenameLocals().visit(tree))


class _GuardForms(ast.NodeTransformer):
    """`if c: raise E` -> `if not c: pass else: raise E`; `a != b` guards -> `not a == b`."""

    def visit_If(self, node: ast.If) -> ast.AST:
        self.generic_visit(node)
        if len(node.body) == 1 and isinstance(node.body[0], ast.Raise) and not node.orelse:
            return ast.If(test=ast.UnaryOp(op=ast.Not(), operand=node.test), body=[ast.Pass()], orelse=[node.body[0]])
        return node


def flip_guards(world: World) -> World:
    return _all_modules(world, lambda tree: _GuardForms().visit(tree))


class _CompareForms(ast.NodeTransformer):
    def visit_Compare(self, node: ast.Compare) -> ast.AST:
        self.generic_visit(node)
        if len(node.ops) == 1 and isinstance(node.ops[0], (ast.Eq, ast.NotEq)):
            # swap the operands of == / !=
            return ast.Compare(left=node.comparators[0], ops=node.ops, comparators=[node.left])
        return node


def swap_equalities(world: World) -> World:
    return _all_modules(world, lambda tree: _CompareForms().visit(tree))


class _Docstrings(ast.NodeTransformer):
    def visit_FunctionDef(self, node: ast.FunctionDef) -> ast.AST:
        self.generic_visit(node)
        node.body.insert(0, ast.Expr(value=ast.Constant(value='Added documentation.')))
        return node


def add_docstrings(world: World) -> World:
    return _all_modules(world, lambda tree: _Docstrings().visit(tree))


class _Messages(ast.NodeTransformer):
    def visit_Raise(self, node: ast.Raise) -> ast.AST:
        if isinstance(node.exc, ast.Call) and node.exc.args:
            node.exc.args = [ast.Constant(value='reworded message')]
        return node


def reword_messages(world: World) -> World:
    return _all_modules(world, lambda tree: _Messages().visit(tree))


VARIANTS = {
    'reformat': reformat,
    'rename-locals': rename_locals,
    'flip-guards': flip_guards,
    'swap-equalities': swap_equalities,
    'add-docstrings': add_docstrings,
    'reword-messages': reword_messages,
}

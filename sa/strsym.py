"""Symbolic strings made of two distinguished letters and arbitrary segments (C14.E6).

A subscripts string is abstracted as a sequence of tokens: a *letter* token (one character, identified by a role
name such as 'S' for the contracted letter and 'T' for the free letter) or a *segment* token standing for an
arbitrary, possibly empty substring that contains none of the distinguished letters (it may hold other letters
and the ellipsis).  A segment that has been reversed is a different token (`rev`), equal to the original only for
palindromes, which a segment is not known to be.

The interpreter evaluates the string manipulation of ``_get_transposed_subscripts`` (index, list(), item
assignment, join, slicing at letter boundaries, reversal, concatenation, replace, sorted/min/max of positions,
f-strings) exactly on this abstraction, for every arrangement of the letters; anything else is `Opaque` and makes
the derivation incomplete.  No code of the repository is executed: the statements are walked as syntax.
"""

from __future__ import annotations

import ast
from dataclasses import dataclass
from typing import Any

from .loader import Incomplete, site


@dataclass(frozen=True)
class Letter:
    name: str


@dataclass(frozen=True)
class Seg:
    name: str
    rev: bool = False


@dataclass(frozen=True)
class Seq:
    toks: tuple  # of Letter | Seg

    def show(self) -> str:
        return ' '.join((t.name if isinstance(t, Letter) else (f'rev({t.name})' if t.rev else t.name)) for t in self.toks) or "''"


@dataclass
class MList:
    toks: list


@dataclass(frozen=True)
class Bound:
    """A character offset that falls on a token boundary of a given sequence: before token k."""
    k: int
    n: int  # number of tokens of the sequence it was computed from
    letter_at: tuple  # for each token index, whether the token is a single letter


@dataclass(frozen=True)
class Opaque:
    why: str


@dataclass(frozen=True)
class FStr:
    parts: tuple  # Seq | str


def reverse(s: Seq) -> Seq:
    return Seq(tuple((t if isinstance(t, Letter) else Seg(t.name, not t.rev)) for t in reversed(s.toks)))


class StrInterp:
    def __init__(self) -> None:
        self.compares: list[tuple[ast.AST, Any, Any]] = []

    # ------------------------------------------------------------------ statements
    def run(self, stmts: list[ast.stmt], env: dict[str, Any]) -> Any:
        """Executes straight-line statements; returns the value of the Return statement, if any."""
        for st in stmts:
            if isinstance(st, ast.Return):
                return self.ev(st.value, env)
            self.stmt(st, env)
        return None

    def stmt(self, st: ast.stmt, env: dict[str, Any]) -> None:
        if isinstance(st, ast.Assign):
            v = self.ev(st.value, env)
            for t in st.targets:
                self.assign(t, v, env)
        elif isinstance(st, ast.AnnAssign) and st.value is not None:
            self.assign(st.target, self.ev(st.value, env), env)
        elif isinstance(st, ast.AugAssign) and isinstance(st.target, ast.Name):
            cur = env.get(st.target.id, Opaque('unbound'))
            env[st.target.id] = self.binop(type(st.op), cur, self.ev(st.value, env), st)
        elif isinstance(st, ast.Expr):
            self.ev(st.value, env)

    def assign(self, target: ast.AST, v: Any, env: dict[str, Any]) -> None:
        if isinstance(target, ast.Name):
            env[target.id] = v
        elif isinstance(target, (ast.Tuple, ast.List)):
            if isinstance(v, tuple) and len(v) == len(target.elts):
                for t, x in zip(target.elts, v):
                    self.assign(t, x, env)
            else:
                for t in target.elts:
                    self.assign(t, Opaque('unpacking of an unknown value'), env)
        elif isinstance(target, ast.Subscript):
            base = self.ev(target.value, env)
            idx = self.ev(target.slice, env)
            if isinstance(base, MList) and isinstance(idx, Bound) and idx.k < len(base.toks) and isinstance(v, Letter):
                if not isinstance(base.toks[idx.k], Letter):
                    raise Incomplete(site(target), 'item assignment inside an arbitrary segment')
                base.toks[idx.k] = v
            elif isinstance(base, MList):
                raise Incomplete(site(target), f'item assignment outside the string domain: {ast.unparse(target)[:50]}')

    # ------------------------------------------------------------------ expressions
    def ev(self, e: ast.AST | None, env: dict[str, Any]) -> Any:
        if e is None:
            return None
        if isinstance(e, ast.Constant):
            if isinstance(e.value, str):
                return e.value
            if isinstance(e.value, int) and not isinstance(e.value, bool):
                return e.value
            return Opaque(repr(e.value))
        if isinstance(e, ast.Name):
            return env.get(e.id, Opaque(f'name {e.id}'))
        if isinstance(e, (ast.Tuple, ast.List)):
            vals = tuple(self.ev(x, env) for x in e.elts)
            return vals
        if isinstance(e, ast.JoinedStr):
            parts = []
            for v in e.values:
                if isinstance(v, ast.Constant):
                    parts.append(v.value)
                elif isinstance(v, ast.FormattedValue) and v.format_spec is None and v.conversion == -1:
                    parts.append(self.ev(v.value, env))
                else:
                    parts.append(Opaque('formatted value'))
            return FStr(tuple(parts))
        if isinstance(e, ast.BinOp):
            return self.binop(type(e.op), self.ev(e.left, env), self.ev(e.right, env), e)
        if isinstance(e, ast.UnaryOp) and isinstance(e.op, ast.USub):
            v = self.ev(e.operand, env)
            return -v if isinstance(v, int) else Opaque('negation')
        if isinstance(e, ast.Compare) and len(e.ops) == 1:
            a, b = self.ev(e.left, env), self.ev(e.comparators[0], env)
            self.compares.append((e, a, b))
            if isinstance(a, Bound) and isinstance(b, Bound):
                if isinstance(e.ops[0], ast.Lt):
                    return a.k < b.k
                if isinstance(e.ops[0], ast.Gt):
                    return a.k > b.k
            return Opaque('comparison')
        if isinstance(e, ast.IfExp):
            t = self.ev(e.test, env)
            if isinstance(t, bool):
                return self.ev(e.body if t else e.orelse, env)
            return Opaque('conditional on an unknown')
        if isinstance(e, ast.Subscript):
            return self.subscript(self.ev(e.value, env), e.slice, env, e)
        if isinstance(e, ast.Call):
            return self.call(e, env)
        return Opaque(ast.unparse(e)[:40])

    def binop(self, op: type, a: Any, b: Any, node: ast.AST) -> Any:
        if op is ast.Add:
            if isinstance(a, Seq) and isinstance(b, Seq):
                return Seq(a.toks + b.toks)
            if isinstance(a, Seq) and isinstance(b, Letter):
                return Seq(a.toks + (b,))
            if isinstance(a, Letter) and isinstance(b, Seq):
                return Seq((a,) + b.toks)
            if isinstance(a, Letter) and isinstance(b, Letter):
                return Seq((a, b))
            if isinstance(a, MList) and isinstance(b, MList):
                return MList(list(a.toks) + list(b.toks))
            if isinstance(a, Bound) and isinstance(b, int):
                return self.shift(a, b, node)
            if isinstance(a, int) and isinstance(b, Bound):
                return self.shift(b, a, node)
            if isinstance(a, int) and isinstance(b, int):
                return a + b
        if op is ast.Sub:
            if isinstance(a, Bound) and isinstance(b, int):
                return self.shift(a, -b, node)
            if isinstance(a, int) and isinstance(b, int):
                return a - b
        return Opaque(f'operator on {type(a).__name__}, {type(b).__name__}')

    def shift(self, b: Bound, d: int, node: ast.AST) -> Any:
        k = b.k
        step = 1 if d > 0 else -1
        for _ in range(abs(d)):
            idx = k if step > 0 else k - 1
            if idx < 0 or idx >= b.n or not b.letter_at[idx]:
                return Opaque('offset into an arbitrary segment')
            k += step
        return Bound(k, b.n, b.letter_at)

    def bound_of(self, toks, k: int) -> Bound:
        return Bound(k, len(toks), tuple(isinstance(t, Letter) for t in toks))

    def subscript(self, base: Any, sl: ast.AST, env: dict[str, Any], node: ast.AST) -> Any:
        toks = base.toks if isinstance(base, (Seq, MList)) else None
        if toks is None:
            if isinstance(base, tuple):
                i = self.ev(sl, env)
                if isinstance(i, int) and -len(base) <= i < len(base):
                    return base[i]
            return Opaque('subscript of a value outside the string domain')
        if isinstance(sl, ast.Slice):
            lo = self.ev(sl.lower, env) if sl.lower is not None else None
            hi = self.ev(sl.upper, env) if sl.upper is not None else None
            step = self.ev(sl.step, env) if sl.step is not None else None
            if step not in (None, 1, -1):
                return Opaque('strided slice')
            if step == -1:
                if lo is None and hi is None:
                    out = reverse(Seq(tuple(toks)))
                    return out if isinstance(base, Seq) else MList(list(out.toks))
                return Opaque('reversed slice with bounds')
            a = 0 if lo is None or lo == 0 else (lo.k if isinstance(lo, Bound) else None)
            b = len(toks) if hi is None else (hi.k if isinstance(hi, Bound) else None)
            if a is None or b is None:
                return Opaque('slice at an unknown offset')
            part = tuple(toks[a:b]) if a <= b else ()
            return Seq(part) if isinstance(base, Seq) else MList(list(part))
        i = self.ev(sl, env)
        if isinstance(i, Bound) and i.k < len(toks) and isinstance(toks[i.k], Letter):
            return toks[i.k]
        return Opaque('item at an unknown offset')

    def call(self, e: ast.Call, env: dict[str, Any]) -> Any:
        f = e.func
        args = [self.ev(a, env) for a in e.args]
        if isinstance(f, ast.Attribute):
            recv = self.ev(f.value, env)
            if f.attr in ('index', 'find') and isinstance(recv, (Seq, MList)) and len(args) == 1 and isinstance(args[0], Letter):
                hits = [k for k, t in enumerate(recv.toks) if t == args[0]]
                if len(hits) != 1:
                    return Opaque(f'{len(hits)} occurrences of the letter')
                return self.bound_of(recv.toks, hits[0])
            if f.attr == 'join' and isinstance(recv, str) and recv == '' and len(args) == 1:
                if isinstance(args[0], MList):
                    return Seq(tuple(args[0].toks))
                if isinstance(args[0], tuple) and all(isinstance(x, (Seq, Letter)) for x in args[0]):
                    out: tuple = ()
                    for x in args[0]:
                        out += x.toks if isinstance(x, Seq) else (x,)
                    return Seq(out)
            if f.attr == 'replace' and isinstance(recv, Seq) and len(args) in (2, 3):
                a, b = args[0], args[1]
                if len(args) == 3:
                    # a bounded replacement equals the full one when the letter occurs at most `count` times
                    if not (isinstance(args[2], int) and isinstance(a, Letter) and sum(1 for t in recv.toks if t == a) <= args[2]):
                        return Opaque('bounded replace')
                if isinstance(a, str) and a == '...':
                    return Opaque('ellipsis removed')  # letter-only view: not a string of the result
                if isinstance(a, str) and len(a) == 1:
                    a = Letter(f'#{a}')
                if isinstance(b, str) and len(b) == 1:
                    b = Letter(f'#{b}')
                if isinstance(a, Letter) and isinstance(b, Letter):
                    return Seq(tuple(b if t == a else t for t in recv.toks))
            if f.attr == 'copy' and isinstance(recv, MList):
                return MList(list(recv.toks))
            if f.attr == 'reverse' and isinstance(recv, MList) and not args:
                recv.toks[:] = list(reverse(Seq(tuple(recv.toks))).toks)
                return None
            return Opaque(f'method {f.attr}')
        if isinstance(f, ast.Name):
            if f.id == 'list' and len(args) == 1 and isinstance(args[0], (Seq, MList)):
                return MList(list(args[0].toks))
            if f.id in ('sorted', 'tuple') and len(args) == 1 and isinstance(args[0], tuple) and all(isinstance(x, Bound) for x in args[0]):
                return tuple(sorted(args[0], key=lambda b: b.k)) if f.id == 'sorted' else args[0]
            if f.id in ('min', 'max') and args and all(isinstance(x, Bound) for x in (args[0] if len(args) == 1 and isinstance(args[0], tuple) else args)):
                xs = args[0] if len(args) == 1 and isinstance(args[0], tuple) else args
                return (min if f.id == 'min' else max)(xs, key=lambda b: b.k)
            if f.id == 'reversed' and len(args) == 1 and isinstance(args[0], (Seq, MList)):
                return MList(list(reverse(Seq(tuple(args[0].toks))).toks))
            if f.id == 'str' and len(args) == 1:
                return args[0]
        return Opaque(f'call {ast.unparse(f)[:30]}')

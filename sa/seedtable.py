"""Regenerates section 12 of DESIGN.md (which checks catch which seeded changes) from /verif/seeded/*/meta.json."""

import glob
import json
import os
import re

VERIF = os.path.dirname(os.path.dirname(os.path.abspath(__file__)))
MARK = '## 12. Seeded changes and the checks that catch them'


def main() -> None:
    rows = []
    for mp in sorted(glob.glob(os.path.join(VERIF, 'seeded', '*', 'meta.json'))):
        m = json.load(open(mp))
        d = os.path.dirname(mp)
        patch = open(os.path.join(d, 'patch.diff')).read()
        files = sorted(set(re.findall(r'^\+\+\+ b/src/furax/(\S+)', patch, re.M)))
        notes = open(os.path.join(d, 'notes.md')).read() if os.path.exists(os.path.join(d, 'notes.md')) else ''
        first = next((l.strip('# ').strip() for l in notes.splitlines() if l.strip()), '')
        first = re.sub(r'^C\d+\s*[/-]?\s*variant\s*\w\s*[-:—]?\s*', '', first, flags=re.I)
        caught = ', '.join(f"{p} ({'/'.join(r.split('.')[1] for r in m['expected_rules'][p])})" for p in m['caught_by']) or '**missed** (value-level, see below)'
        rows.append(f"| {m['id']} | {', '.join(files)} | {first[:110].replace('|', '/')} | {caught} |")
    ncaught = sum('missed' not in r for r in rows)
    text = f"""{MARK}

{len(rows)} changes written by independent sub-agents (property text + scratch worktree only), each confirmed by me in a scratch
worktree (demo passes clean / fails patched, whole suite still green). {ncaught} are reported as a VIOLATION by at least one check
(every one of them by the check of the property it was written for, or by a check whose obligation that property re-uses);
the others are listed as missed with the reason. Regenerate with `/venv/bin/python -m sa.seedtable`.

| seed | files | change | caught by (rule) |
|---|---|---|---|
""" + '\n'.join(rows) + """

Missed, and why they stay missed: the misses are changes to *index / string arithmetic whose correctness is value-level*
(the permutation used to lay diagonal values along an unsorted axis tuple; the letter swap of the einsum subscripts turned
into a slice reversal; ...). Sections 5 and 7 declare exactly these parts "not decided": no abstract domain in reach captures
them without enumerating inputs, and a frozen-source proxy would fire on behaviour-preserving rewrites. They are recorded
here rather than papered over.
"""
    path = os.path.join(VERIF, 'DESIGN.md')
    s = open(path).read()
    if MARK in s:
        s = s[: s.index(MARK)].rstrip() + '\n\n'
    else:
        s = s.rstrip() + '\n\n---------------------------------------------------------------------------------------------\n\n'
    open(path, 'w').write(s + text)
    print(f'{len(rows)} seeds, {ncaught} caught')


if __name__ == '__main__':
    main()

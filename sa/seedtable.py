"""Regenerates section 12 of DESIGN.md (which checks catch which seeded changes) from /verif/seeded/*/meta.json."""

import glob
import json
import os
import re

VERIF = os.path.dirname(os.path.dirname(os.path.abspath(__file__)))
MARK = '## 12. Seeded changes and the checks that catch them'


def main() -> None:
    rows = []
    stats: dict = {}
    for mp in sorted(glob.glob(os.path.join(VERIF, 'seeded', '*', 'meta.json'))):
        m = json.load(open(mp))
        d = os.path.dirname(mp)
        patch = open(os.path.join(d, 'patch.diff')).read()
        files = sorted(set(re.findall(r'^\+\+\+ b/src/furax/(\S+)', patch, re.M)))
        notes = open(os.path.join(d, 'notes.md')).read() if os.path.exists(os.path.join(d, 'notes.md')) else ''
        first = next((l.strip('# ').strip() for l in notes.splitlines() if l.strip()), '')
        first = re.sub(r'^C\d+\s*[/-]?\s*variant\s*\w\s*[-:—]?\s*', '', first, flags=re.I)
        caught = ', '.join(f"{p} ({'/'.join(r.split('.')[1] for r in m['expected_rules'][p])})" for p in m['caught_by'])
        own = m['property'] in m['caught_by']
        und = m.get('undecided_by', [])
        if not caught:
            caught = ('undecided (exit 2) by ' + ', '.join(und)) if und else '**missed**'
        elif not own:
            caught += ' - not by its own check' + (f' (which is undecided)' if m['property'] in und else '')
        rnd = {'a': 1, 'b': 1, 'c': 2, 'd': 2, 'e': 5, 'f': 5, 'g': 6, 'h': 7, 'i': 8, 'j': 9}.get(m['id'][-1], 0)
        stats.setdefault(rnd, [0, 0, 0, 0, 0])
        stats[rnd][0] += 1
        stats[rnd][1] += own
        stats[rnd][2] += bool(m['caught_by']) and not own
        stats[rnd][3] += (not m['caught_by']) and bool(und)
        stats[rnd][4] += (not m['caught_by']) and not und
        rows.append(f"| {m['id']} | {', '.join(files)} | {first[:110].replace('|', '/')} | {caught} |")
    ncaught = sum(v[1] + v[2] for v in stats.values())
    summary = '\n'.join(f'| {r} | {v[0]} | {v[1]} | {v[2]} | {v[3]} | {v[4]} |' for r, v in sorted(stats.items()))
    text = f"""{MARK}

{len(rows)} changes written by independent sub-agents (property text + scratch worktree only), each confirmed by me in a scratch
worktree (demo passes clean / fails patched, whole suite still green). Rounds 1-2 are small subtle edits; rounds 5-9 are
refactoring commits (10-50 changed lines, new helpers / records / tables) with one wrong detail, whose repaired twins are in
`/verif/refactors`. {ncaught} are reported as a VIOLATION by at least one check. Regenerate with `/venv/bin/python -m sa.seedtable`
after `tools/refresh_meta.py`.

| round | seeds | VIOLATION by the check of their own property | VIOLATION by another check only | undecided (exit 2) | missed |
|---|---|---|---|---|---|
{summary}

"Undecided" is what a structural rule answers on code written with names it does not know (section 11, sixth round), or what
an evaluation answers when it meets a construct it does not model: the check exits 2 and says why; it never says "holds".

| seed | files | change | outcome |
|---|---|---|---|
""" + '\n'.join(rows) + "\n"
    path = os.path.join(VERIF, 'DESIGN.md')
    s = open(path).read()
    if MARK in s:
        s = s[: s.index(MARK)].rstrip() + '\n\n'
    else:
        s = s.rstrip() + '\n\n---------------------------------------------------------------------------------------------\n\n'
    open(path, 'w').write(s + text)
    print(f'{len(rows)} seeds, {ncaught} caught')


if __name__ == '__main__':
    main()

"""Driver: ./check <ID> [--tier quick|thorough] [--root DIR]"""

from __future__ import annotations

import argparse
import importlib
import os
import sys
import traceback
from dataclasses import dataclass
from typing import Callable

from . import report
from .classes import ClassTable
from .loader import AnalysisError, Incomplete, World
from .report import Checker, Ob

ALL_IDS = [f'C{i:02d}' for i in range(1, 21)]


class Ctx:
    """Lazily built engines shared by the rules of one run."""

    def __init__(self, world: World):
        from .normalise import normalise

        self.raw_world = world
        self.world = normalise(world)
        self._table: ClassTable | None = None
        self.cache: dict = {}

    @property
    def table(self) -> ClassTable:
        if self._table is None:
            self._table = ClassTable(self.world)
            _publish_signatures(self.world, self._table)
        return self._table


def _publish_signatures(world: World, table: ClassTable) -> None:
    """Positional-or-keyword parameters of the package's classes and functions, for keyword normalisation in terms."""
    import ast as _ast

    from . import terms

    sigs: dict[str, list[str]] = {}
    clash: set[str] = set()

    def put(name: str, params: list[str]) -> None:
        if name in sigs and sigs[name] != params:
            clash.add(name)
        sigs[name] = params

    for cls in table.classes.values():
        r = table.resolve(cls, '__init__')
        if r is not None and isinstance(r.node, _ast.FunctionDef):
            put(cls.name, [a.arg for a in r.node.args.posonlyargs + r.node.args.args][1:])
        else:
            put(cls.name, [f.name for f in table.fields(cls)])
    for module in world.modules.values():
        for node in module.tree.body:
            if isinstance(node, _ast.FunctionDef):
                put(node.name, [a.arg for a in node.args.posonlyargs + node.args.args])
    for name in clash:
        sigs.pop(name, None)
    terms.SIGNATURES.clear()
    terms.SIGNATURES.update(sigs)


@dataclass
class Control:
    name: str
    make: Callable[[World], World]
    expect: str  # substring of the violation key that must be reported on the variant
    why: str = ''


def run_property(pid: str, world: World) -> Checker:
    mod = importlib.import_module(f'sa.props.{pid.lower()}')
    ck = Checker(pid)
    try:
        ctx = Ctx(world)
        from .restructured import restructured_functions

        restructured = restructured_functions(ctx.raw_world)
        # a class inherits the methods of its bases: obligations anchored at a subclass of a restructured class are about that code too
        try:
            for k in ctx.table.classes.values():
                for anc in k.mro[1:]:
                    if anc.qual in restructured and k.qual not in restructured:
                        restructured[k.qual] = f'inherits from {anc.name}, which {restructured[anc.qual]}'
                        break
        except (AnalysisError, Incomplete):
            pass
        report.RESTRUCTURED = restructured
        mod.run(ctx, ck)
        _common_rules(pid, ctx, ck)
    except Incomplete as exc:
        ck.incomplete('ENGINE', exc.site, exc.why)
    return ck


_ANCHORS: dict[str, set[str]] = {}


def _anchor_files(pid: str) -> set[str]:
    if not _ANCHORS:
        import json

        path = os.path.join(report.VERIF, 'properties.jsonl')
        with open(path, encoding='utf-8') as f:
            for line in f:
                if line.strip():
                    p = json.loads(line)
                    _ANCHORS[p['id']] = set(p['anchors']['files'])
    return _ANCHORS.get(pid, set())


def _common_rules(pid: str, ctx: 'Ctx', ck: Checker) -> None:
    """Rules applied to every property over the files it is anchored in."""
    from .argsel import swaps

    files = _anchor_files(pid)
    found, examined = swaps(ctx.world, ctx.table, files)
    for node, why in found:
        ck.bad('ARGSEL', node, why, instance='swapped arguments')
    if not found:
        ck.ok('ARGSEL', f'{len(files)} anchor files', f'{examined} call sites to in-package callees with >= 2 positional arguments: no argument is passed in another parameter\'s position', instance='argument selection', nontrivial=examined > 0)


CONTROL_EXPECT: str | None = None  # while a positive control runs: the rule it must trigger (expensive unrelated rules may skip)


def _run_controls(pid: str, world: World, mod) -> tuple[int, list[str]]:
    from .normalise import normalise

    # controls edit the tree the rules see (helpers inlined, methods of new intermediate classes copied down)
    try:
        world = normalise(world)
    except (Incomplete, AnalysisError) as exc:
        _run_controls.skipped = [f'all controls: the tree cannot be normalised: {exc}']  # type: ignore[attr-defined]
        return 0, []
    controls: list[Control] = mod.controls(world) if hasattr(mod, 'controls') else []
    failures = []
    skipped: list[str] = []
    for c in controls:
        try:
            variant = c.make(world)
        except AnalysisError as exc:
            # the control's text anchor is gone (the code was restructured): the control cannot be built on this tree;
            # that is recorded, and is fatal only when the tree is the one the controls were written for
            skipped.append(f'control {c.name}: cannot build variant: {exc}')
            continue
        except (StopIteration, LookupError, AttributeError, TypeError, ValueError) as exc:
            # an ad-hoc editing function of a control did not find the statement it rewrites
            skipped.append(f'control {c.name}: cannot build variant: {type(exc).__name__} {exc}')
            continue
        global CONTROL_EXPECT
        CONTROL_EXPECT = c.expect
        try:
            ck = run_property(pid, variant)
        finally:
            CONTROL_EXPECT = None
        keys = [o.key for o in ck.violations()]
        if not any(c.expect in k for k in keys):
            failures.append(f'control {c.name}: expected a violation matching {c.expect!r}, got {keys[:4]}')
    # controls that cannot be built (their text anchors were restructured away) are recorded, not fatal: the instance
    # floors of the rules still guard against vacuity, and every control that can be built must still fire
    _run_controls.skipped = skipped  # type: ignore[attr-defined]
    return len(controls) - len(skipped), failures


def main(argv: list[str] | None = None) -> int:
    ap = argparse.ArgumentParser()
    ap.add_argument('pid')
    ap.add_argument('--tier', default=os.environ.get('VERIF_TIER') or 'quick', choices=['quick', 'thorough'])
    ap.add_argument('--root', default=os.environ.get('FURAX_SA_ROOT') or '/repo')
    ap.add_argument('--no-evidence', action='store_true')
    ap.add_argument('--rev', default=None, help='analyse the sources of a git revision of the repository (self-test only; implies --no-evidence)')
    ap.add_argument('--apply', default=None, help='analyse the tree with a unified diff applied in memory (self-test only; implies --no-evidence)')
    ap.add_argument('--verbose', '-v', action='store_true')
    args = ap.parse_args(argv)
    pid = args.pid.upper()
    if pid not in ALL_IDS:
        print(f'ANALYSIS-ERROR unknown property {pid}')
        return 2
    try:
        seed = int(os.environ.get('VERIF_SEED', '0') or 0)
    except ValueError:
        seed = 0
    timer = report.Timer()
    try:
        return _main(pid, args, seed, timer)
    except AnalysisError as exc:
        print(f'ANALYSIS-ERROR property={pid} {exc}')
        return 2
    except Exception:  # noqa: BLE001 - a crash of the analyser is never a verdict
        traceback.print_exc()
        print(f'ANALYSIS-ERROR property={pid} internal error in the analyser (traceback above)')
        return 2


def _main(pid: str, args, seed: int, timer: report.Timer) -> int:
    mod = importlib.import_module(f'sa.props.{pid.lower()}')
    if args.rev:
        from .history import world_at

        world = world_at(args.root, args.rev)
        args.no_evidence = True
    elif args.apply:
        from .history import world_with_patch

        world = world_with_patch(args.root, args.apply)
        args.no_evidence = True
    else:
        world = World(args.root)
    ck = run_property(pid, world)
    ncontrols, control_failures = _run_controls(pid, world, mod)
    extra: dict = {'controls_run': ncontrols, 'control_failures': control_failures, 'controls_skipped': getattr(_run_controls, 'skipped', []), 'source_digest': world.digest()}

    thorough_failures: list[str] = []
    if args.tier == 'thorough':
        from . import thorough

        t_extra, thorough_failures = thorough.run(pid, world, ck)
        extra.update(t_extra)

    known = report.load_known()
    known_keys = {e['key']: e for e in known.get('known', []) if e.get('property') == pid}
    viols = ck.violations()
    known_hits = [o for o in viols if o.key in known_keys]
    new_viols = [o for o in viols if o.key not in known_keys]
    incompletes = ck.incompletes()
    floor_failures = ck.floor_failures()

    cmd = f'./check {pid}' + (' --tier thorough' if args.tier == 'thorough' else '')
    if not args.no_evidence:
        report.write_evidence(
            ck,
            tier=args.tier,
            seed=seed,
            level=mod.LEVEL,
            explanation=mod.EXPLANATION,
            rule_text=mod.RULE_TEXT,
            checker_cmd=cmd,
            world_stats=world.stats(),
            wall_s=timer.elapsed(),
            new_violations=new_viols,
            known_hits=known_hits,
            extra=extra,
        )

    st = world.stats()
    print(
        f'{pid} [{args.tier}] analysed {st["modules"]} modules / {st["lines"]} lines / {st["classes"]} classes / '
        f'{st["functions"]} functions; {len(ck.obs)} obligations, '
        f'{sum(1 for o in ck.obs if o.status == "ok")} discharged, {ncontrols} controls, {timer.elapsed():.2f}s'
    )
    if args.verbose:
        for o in ck.obs:
            print(f'  [{o.status:10s}] {o.rule:10s} {o.construct}  -- {o.how}')
    for o in known_hits:
        print(f'KNOWN-FINDING: property={pid} {o.key}: {known_keys[o.key].get("what", o.how)}')
    if new_viols:
        print(f'VIOLATION property={pid} replay={os.path.join(report.EVIDENCE_DIR, pid + ".violations.json")}')
        for o in new_viols:
            print(f'  {o.site}  {o.construct}  rule={o.rule}  {o.how}')
        return 1
    rc = 0
    for o in incompletes:
        print(f'ANALYSIS-INCOMPLETE property={pid} {o.site} {o.construct} rule={o.rule}: {o.how}')
        rc = 2
    for msg in floor_failures:
        print(f'ANALYSIS-ERROR property={pid} instance count below floor: {msg}')
        rc = 2
    for msg in control_failures:
        print(f'ANALYSIS-ERROR property={pid} positive control silent: {msg}')
        rc = 2
    for msg in thorough_failures:
        print(f'ANALYSIS-ERROR property={pid} thorough tier: {msg}')
        rc = 2
    return rc


if __name__ == '__main__':
    sys.exit(main())

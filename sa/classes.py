"""E2 - class table: bases, C3 MRO, members, fields, decorator effects, tags, rule registry.

Decorator effects are *interpreted* from the bodies of the decorator functions (the small
language they use: tag registration, a call to another decorator, ``cls.a = cls.b``,
``cls.a = <lambda>``, ``return cls``), applied bottom-up at class-definition time with MRO
lookup at that moment - exactly what Python does.
"""

from __future__ import annotations

import ast
from dataclasses import dataclass, field

from .loader import AnalysisError, Incomplete, Module, World, class_member, dotted, module_of, qualname, site

CORE = 'furax._base.core'
OPERATOR_BASE = f'{CORE}.AbstractLinearOperator'
RULES = 'furax._base.rules'
BINARY_RULE_BASE = f'{RULES}.AbstractBinaryRule'


@dataclass
class Resolved:
    """Result of attribute resolution on a class."""

    name: str
    node: ast.AST  # FunctionDef, Lambda, Assign/AnnAssign (class-level value)
    owner: 'ClassInfo | None'  # class in whose body ``node`` was written (None: decorator lambda)
    found_on: 'ClassInfo'  # class of the MRO on which the attribute was found
    provenance: str  # 'own', 'alias of X', 'patched by <decorator> (<site>)'
    is_property: bool = False

    @property
    def is_function(self) -> bool:
        return isinstance(self.node, (ast.FunctionDef, ast.Lambda))


@dataclass
class FieldInfo:
    name: str
    annotation: ast.AST
    ann_text: str
    static: bool
    has_default: bool
    owner: 'ClassInfo'
    node: ast.AnnAssign


@dataclass
class ClassInfo:
    qual: str
    node: ast.ClassDef
    module: Module
    bases: list['ClassInfo | str'] = field(default_factory=list)
    mro: list['ClassInfo'] = field(default_factory=list)
    external_bases: list[str] = field(default_factory=list)
    own: dict[str, ast.AST] = field(default_factory=dict)
    own_fields: list[FieldInfo] = field(default_factory=list)
    decorators: list[str] = field(default_factory=list)  # qualified names, application order
    patched: dict[str, Resolved] = field(default_factory=dict)
    tag_regs: dict[str, bool] = field(default_factory=dict)
    tag_prov: dict[str, str] = field(default_factory=dict)
    order: int = 0

    @property
    def name(self) -> str:
        return self.node.name

    def __hash__(self) -> int:
        return hash(self.qual)

    def __eq__(self, other: object) -> bool:
        return isinstance(other, ClassInfo) and other.qual == self.qual

    def __repr__(self) -> str:
        return f'<class {self.qual}>'


def _c3(cls: ClassInfo, table: dict[str, ClassInfo]) -> list[ClassInfo]:
    seqs = [list(b.mro) for b in cls.bases if isinstance(b, ClassInfo)]
    seqs.append([b for b in cls.bases if isinstance(b, ClassInfo)])
    result = [cls]
    seqs = [s for s in seqs if s]
    while seqs:
        for seq in seqs:
            head = seq[0]
            if not any(head in s[1:] for s in seqs):
                break
        else:
            raise AnalysisError(f'inconsistent MRO for {cls.qual}')
        result.append(head)
        seqs = [[c for c in s if c != head] for s in seqs]
        seqs = [s for s in seqs if s]
    return result


def _is_static_field(world: World, module: Module, value: ast.AST | None) -> bool:
    if not isinstance(value, ast.Call):
        return False
    q = world.qualify(module, value.func)
    if q not in ('equinox.field', 'equinox._module.field', 'dataclasses.field'):
        return False
    for kw in value.keywords:
        if kw.arg == 'static' and isinstance(kw.value, ast.Constant) and kw.value.value is True:
            return True
    return False


def _is_classvar(ann: ast.AST) -> bool:
    text = ast.unparse(ann)
    return text.startswith('ClassVar') or text.startswith('typing.ClassVar')


class ClassTable:
    def __init__(self, world: World):
        self.world = world
        self.classes: dict[str, ClassInfo] = {}
        self.default_tags: list[str] | None = None  # tags defaulted to False by __init_subclass__
        self.decorator_sites: dict[str, str] = {}
        self._build()

    # ------------------------------------------------------------------ construction
    def _build(self) -> None:
        world = self.world
        order = 0
        pending: list[ClassInfo] = []
        for module in world.modules.values():
            for node in module.tree.body:
                if isinstance(node, ast.ClassDef):
                    info = ClassInfo(qual=f'{module.name}.{node.name}', node=node, module=module)
                    self.classes[info.qual] = info
                    pending.append(info)
        # bases
        for info in pending:
            for base in info.node.bases:
                target = base.value if isinstance(base, ast.Subscript) else base
                q = world.qualify(info.module, target)
                if q is None:
                    raise Incomplete(site(info.node), f'base class expression {ast.unparse(base)}')
                if q in self.classes:
                    info.bases.append(self.classes[q])
                else:
                    info.bases.append(q)
                    info.external_bases.append(q)
        # topological order (bases first), stable w.r.t. module order
        done: list[ClassInfo] = []
        state: dict[str, int] = {}

        def visit(c: ClassInfo) -> None:
            if state.get(c.qual) == 2:
                return
            if state.get(c.qual) == 1:
                raise AnalysisError(f'cyclic inheritance at {c.qual}')
            state[c.qual] = 1
            for b in c.bases:
                if isinstance(b, ClassInfo):
                    visit(b)
            state[c.qual] = 2
            done.append(c)

        for info in pending:
            visit(info)
        self._read_default_tags()
        for info in done:
            info.order = order
            order += 1
            info.mro = _c3(info, self.classes)
            self._collect_members(info)
            self._apply_class_creation(info)

    def _collect_members(self, info: ClassInfo) -> None:
        world = self.world
        for node in info.node.body:
            if isinstance(node, (ast.FunctionDef, ast.AsyncFunctionDef)):
                # keep the last definition that is not an @overload stub
                decos = [world.qualify(module_of(node), d) for d in node.decorator_list if dotted(d)]
                if 'typing.overload' in decos:
                    continue
                info.own[node.name] = node
            elif isinstance(node, ast.Assign):
                for target in node.targets:
                    if isinstance(target, ast.Name):
                        info.own[target.id] = node
            elif isinstance(node, ast.AnnAssign) and isinstance(node.target, ast.Name):
                if _is_classvar(node.annotation):
                    if node.value is not None:
                        info.own[node.target.id] = node
                    continue
                static = _is_static_field(world, module_of(node), node.value)
                has_default = node.value is not None and not (
                    isinstance(node.value, ast.Call)
                    and world.qualify(module_of(node), node.value.func) in ('equinox.field', 'dataclasses.field')
                    and not any(kw.arg in ('default', 'default_factory') for kw in node.value.keywords)
                )
                info.own_fields.append(
                    FieldInfo(
                        name=node.target.id,
                        annotation=node.annotation,
                        ann_text=_expand_type_aliases(node.annotation),
                        static=static,
                        has_default=has_default,
                        owner=info,
                        node=node,
                    )
                )
                if node.value is not None and has_default:
                    info.own[node.target.id] = node
        for deco in reversed(info.node.decorator_list):
            target = deco.func if isinstance(deco, ast.Call) else deco
            q = world.qualify(info.module, target)
            info.decorators.append(q or ast.unparse(deco))

    # ------------------------------------------------------------------ tags / decorators
    def _read_default_tags(self) -> None:
        """Reads the list of tags that __init_subclass__ defaults to False (pattern-matched)."""
        world = self.world
        fn = world.lookup(f'{CORE}._monkey_patch_operator')
        base = world.lookup(OPERATOR_BASE)
        if not isinstance(fn, ast.FunctionDef) or not isinstance(base, ast.ClassDef):
            return
        init_sub = class_member(base, '__init_subclass__')
        if not isinstance(init_sub, ast.FunctionDef):
            return
        calls = [
            n
            for n in ast.walk(init_sub)
            if isinstance(n, ast.Call) and world.qualify(module_of(n), n.func) == f'{CORE}._monkey_patch_operator'
        ]
        if not calls:
            return
        module = module_of(fn)
        for stmt in fn.body:
            it = stmt.iter if isinstance(stmt, ast.For) else None
            if isinstance(it, ast.Name):
                # a module-level constant holding the tag list
                d = module_of(it).defs.get(it.id)
                if isinstance(d, (ast.Assign, ast.AnnAssign)) and isinstance(d.value, (ast.List, ast.Tuple)):
                    it = d.value
            if isinstance(stmt, ast.For) and isinstance(it, (ast.List, ast.Tuple)):
                tags = [world.qualify(module_of(e), e) for e in it.elts]
                if not all(t and t.startswith('lineax.is_') for t in tags):
                    continue
                body_src = ' '.join(ast.unparse(s) for s in stmt.body)
                registers_false = any(
                    isinstance(n, ast.Lambda) and isinstance(n.body, ast.Constant) and n.body.value is False
                    for s in stmt.body
                    for n in ast.walk(s)
                )
                if registers_false and '_already_registered' in body_src and '.register(' in body_src:
                    self.default_tags = [t.split('.')[-1] for t in tags if t]
                    return

    def _apply_class_creation(self, info: ClassInfo) -> None:
        # __init_subclass__ default registrations (strict subclasses of the operator base only)
        if self.default_tags is not None and self.is_subclass(info, OPERATOR_BASE) and info.qual != OPERATOR_BASE:
            for tag in self.default_tags:
                if not any(tag in anc.tag_regs for anc in info.mro[1:]):
                    info.tag_regs[tag] = False
                    info.tag_prov[tag] = 'default False (__init_subclass__)'
        for deco_q, deco_node in zip(info.decorators, reversed(info.node.decorator_list)):
            fn = self.world.lookup(deco_q)
            if isinstance(fn, ast.FunctionDef):
                self._interpret_decorator(fn, info, depth=0, origin=f'{fn.name} at {site(deco_node)}')

    def _interpret_decorator(self, fn: ast.FunctionDef, info: ClassInfo, depth: int, origin: str) -> None:
        if depth > 8:
            raise Incomplete(site(fn), 'decorator recursion too deep')
        world = self.world
        module = module_of(fn)
        if not fn.args.args:
            raise Incomplete(site(fn), 'decorator without parameter')
        cls_name = fn.args.args[0].arg
        const_fns: dict[str, bool] = {}  # local functions / lambdas that return a boolean constant
        for stmt in fn.body:
            if isinstance(stmt, ast.Expr) and isinstance(stmt.value, ast.Constant):
                continue  # docstring
            if isinstance(stmt, ast.FunctionDef):
                body = [x for x in stmt.body if not (isinstance(x, ast.Expr) and isinstance(x.value, ast.Constant))]
                if len(body) == 1 and isinstance(body[0], ast.Return) and isinstance(body[0].value, ast.Constant) and isinstance(body[0].value.value, bool):
                    const_fns[stmt.name] = body[0].value.value
                    continue
                raise Incomplete(site(stmt), f'local function of decorator {fn.name} is not a constant tag')
            if (isinstance(stmt, ast.Assign) and len(stmt.targets) == 1 and isinstance(stmt.targets[0], ast.Name) and isinstance(stmt.value, ast.Lambda)
                    and isinstance(stmt.value.body, ast.Constant) and isinstance(stmt.value.body.value, bool)):
                const_fns[stmt.targets[0].id] = stmt.value.body.value
                continue
            if isinstance(stmt, (ast.Assert, ast.Pass)):
                continue
            if isinstance(stmt, ast.Return):
                if isinstance(stmt.value, ast.Name) and stmt.value.id == cls_name:
                    continue
                raise Incomplete(site(stmt), f'decorator {fn.name} returns something else than the class')
            if isinstance(stmt, ast.Expr) and isinstance(stmt.value, ast.Call):
                call = stmt.value
                # lx.is_X.register(cls)(lambda _: CONST)
                if (
                    isinstance(call.func, ast.Call)
                    and isinstance(call.func.func, ast.Attribute)
                    and call.func.func.attr == 'register'
                ):
                    tagq = world.qualify(module, call.func.func.value)
                    args = call.func.args
                    if (
                        tagq
                        and tagq.startswith('lineax.is_')
                        and len(args) == 1
                        and isinstance(args[0], ast.Name)
                        and args[0].id == cls_name
                        and len(call.args) == 1
                        and (
                            (isinstance(call.args[0], ast.Lambda) and isinstance(call.args[0].body, ast.Constant) and isinstance(call.args[0].body.value, bool))
                            or (isinstance(call.args[0], ast.Name) and call.args[0].id in const_fns)
                        )
                    ):
                        tag = tagq.split('.')[-1]
                        info.tag_regs[tag] = call.args[0].body.value if isinstance(call.args[0], ast.Lambda) else const_fns[call.args[0].id]
                        info.tag_prov[tag] = f'{fn.name} ({site(stmt)}) via {origin}'
                        continue
                    raise Incomplete(site(stmt), f'unrecognised registration in decorator {fn.name}')
                # other_decorator(cls)
                q = world.qualify(module, call.func)
                callee = world.lookup(q) if q else None
                if (
                    isinstance(callee, ast.FunctionDef)
                    and len(call.args) == 1
                    and isinstance(call.args[0], ast.Name)
                    and call.args[0].id == cls_name
                ):
                    self._interpret_decorator(callee, info, depth + 1, origin)
                    continue
                raise Incomplete(site(stmt), f'unrecognised call in decorator {fn.name}: {ast.unparse(stmt)}')
            if isinstance(stmt, ast.Assign) and len(stmt.targets) == 1:
                tgt = stmt.targets[0]
                if isinstance(tgt, ast.Attribute) and isinstance(tgt.value, ast.Name) and tgt.value.id == cls_name:
                    prov = f'patched by {fn.name} ({site(stmt)}) via {origin}'
                    val = stmt.value
                    if isinstance(val, ast.Attribute) and isinstance(val.value, ast.Name) and val.value.id == cls_name:
                        src = self.resolve(info, val.attr)
                        if src is None:
                            raise Incomplete(site(stmt), f'{info.name}.{val.attr} does not resolve at decoration time')
                        info.patched[tgt.attr] = Resolved(
                            name=tgt.attr,
                            node=src.node,
                            owner=src.owner,
                            found_on=info,
                            provenance=f'{prov}: = {val.attr} [{src.provenance} on {src.found_on.name}]',
                            is_property=src.is_property,
                        )
                        continue
                    if isinstance(val, ast.Lambda):
                        info.patched[tgt.attr] = Resolved(
                            name=tgt.attr, node=val, owner=None, found_on=info, provenance=prov
                        )
                        continue
            raise Incomplete(site(stmt), f'statement outside the decorator language in {fn.name}: {ast.unparse(stmt)[:80]}')

    # ------------------------------------------------------------------ queries
    def get(self, qual: str) -> ClassInfo:
        q = self.world.canonical(qual)
        if q not in self.classes:
            raise AnalysisError(f'anchor vanished: class {qual} not found')
        return self.classes[q]

    def find(self, qual: str) -> ClassInfo | None:
        return self.classes.get(self.world.canonical(qual))

    def by_name(self, name: str) -> ClassInfo:
        hits = [c for c in self.classes.values() if c.name == name]
        if len(hits) != 1:
            raise AnalysisError(f'anchor vanished or ambiguous: class named {name} ({len(hits)} hits)')
        return hits[0]

    def is_subclass(self, cls: ClassInfo, base: 'ClassInfo | str') -> bool:
        bq = base.qual if isinstance(base, ClassInfo) else self.world.canonical(base)
        if any(c.qual == bq for c in cls.mro or [cls]):
            return True
        return any(bq in c.external_bases for c in (cls.mro or [cls]))

    def subclasses(self, base: 'ClassInfo | str', strict: bool = False) -> list[ClassInfo]:
        out = [c for c in self.classes.values() if self.is_subclass(c, base)]
        if strict:
            bq = base.qual if isinstance(base, ClassInfo) else self.world.canonical(base)
            out = [c for c in out if c.qual != bq]
        return sorted(out, key=lambda c: c.order)

    def operators(self) -> list[ClassInfo]:
        return self.subclasses(OPERATOR_BASE, strict=True)

    def resolve(self, cls: ClassInfo, name: str) -> Resolved | None:
        for k in cls.mro:
            if name in k.patched:
                r = k.patched[name]
                return Resolved(r.name, r.node, r.owner, k, r.provenance, r.is_property)
            if name in k.own:
                return self._own(k, name)
        return None

    def _own(self, k: ClassInfo, name: str, depth: int = 0) -> Resolved:
        node = k.own[name]
        if isinstance(node, ast.Assign) and isinstance(node.value, ast.Attribute) and isinstance(node.value.value, ast.Name) and depth < 4:
            # class-level alias of another class's member, e.g. ``inverse = AbstractLazyInverseOperator.inverse``
            q = self.world.qualify(module_of(node), node.value.value.id)
            other = self.find(q) if q else None
            if other is not None and other is not k:
                r = self.resolve(other, node.value.attr)
                if r is not None and isinstance(r.node, (ast.FunctionDef, ast.Lambda)):
                    return Resolved(name, r.node, r.owner, k, f'alias of {other.name}.{node.value.attr}', r.is_property)
        if isinstance(node, ast.Assign) and isinstance(node.value, ast.Name) and depth < 4:
            # class-level alias, e.g. ``inverse = transpose``: the object bound in the class
            # namespace at that point, i.e. the latest earlier binding of that name in the body.
            src_name = node.value.id
            earlier: ast.AST | None = None
            for stmt in k.node.body:
                if stmt is node:
                    break
                if isinstance(stmt, (ast.FunctionDef, ast.AsyncFunctionDef)) and stmt.name == src_name:
                    earlier = stmt
                elif isinstance(stmt, ast.Assign) and any(
                    isinstance(t, ast.Name) and t.id == src_name for t in stmt.targets
                ):
                    earlier = stmt
            if isinstance(earlier, ast.FunctionDef):
                return Resolved(name, earlier, k, k, f'alias of {src_name}', _is_property(self.world, k, earlier))
        is_prop = isinstance(node, ast.FunctionDef) and _is_property(self.world, k, node)
        return Resolved(name, node, k, k, 'own', is_prop)

    def tag(self, cls: ClassInfo, tag: str) -> tuple[bool | None, str]:
        """Effective value of a lineax tag query (first registration along the MRO)."""
        for k in cls.mro:
            if tag in k.tag_regs:
                return k.tag_regs[tag], f'{k.name}: {k.tag_prov.get(tag, "")}'
        return None, 'unregistered'

    def true_tags(self, cls: ClassInfo) -> set[str]:
        tags = set()
        for k in cls.mro:
            for t in k.tag_regs:
                tags.add(t)
        return {t for t in tags if self.tag(cls, t)[0] is True}

    def decorated_with(self, cls: ClassInfo, deco: str) -> bool:
        """True if the decorator function ``deco`` (core name) was applied to cls or an ancestor,
        directly or through another decorator."""
        return any(self._decorator_closure(k, deco) for k in cls.mro)

    def _decorator_closure(self, cls: ClassInfo, deco: str) -> bool:
        target = self.world.canonical(f'{CORE}.{deco}')
        seen: set[str] = set()

        def reaches(q: str) -> bool:
            if q == target:
                return True
            if q in seen:
                return False
            seen.add(q)
            fn = self.world.lookup(q)
            if not isinstance(fn, ast.FunctionDef):
                return False
            module = module_of(fn)
            for n in ast.walk(fn):
                if isinstance(n, ast.Call):
                    cq = self.world.qualify(module, n.func)
                    if cq and self.world.lookup(cq) is not None and reaches(self.world.canonical(cq)):
                        return True
            return False

        return any(reaches(self.world.canonical(d)) for d in cls.decorators)

    def fields(self, cls: ClassInfo) -> list[FieldInfo]:
        """Dataclass fields along the MRO (base first; a redeclaration keeps its first position)."""
        out: dict[str, FieldInfo] = {}
        for k in reversed(cls.mro):
            for f in k.own_fields:
                out[f.name] = f
        return list(out.values())

    def rules(self) -> list[ClassInfo]:
        out = [
            c
            for c in self.subclasses(BINARY_RULE_BASE, strict=True)
            if not c.name.startswith('Abstract')
        ]
        return out

    def class_attr(self, cls: ClassInfo, name: str) -> tuple[ast.AST | None, ClassInfo | None]:
        """Value expression of a class-level attribute along the MRO."""
        for k in cls.mro:
            node = k.own.get(name)
            if isinstance(node, ast.Assign):
                return node.value, k
            if isinstance(node, ast.AnnAssign) and node.value is not None:
                return node.value, k
        return None, None

    def class_refs(self, cls: ClassInfo, name: str) -> list[ClassInfo] | None:
        """A class attribute naming one class or a tuple of classes -> list of ClassInfo.
        None if the attribute is unset/None."""
        value, owner = self.class_attr(cls, name)
        if value is None or (isinstance(value, ast.Constant) and value.value is None):
            return None
        assert owner is not None
        # a module-level constant naming the class(es) stands for its value
        for _ in range(3):
            if isinstance(value, ast.Name):
                q0 = self.world.qualify(module_of(value), value)
                d = self.world.lookup(q0) if q0 else None
                if isinstance(d, (ast.Assign, ast.AnnAssign)) and d.value is not None:
                    value = d.value
                    continue
            break
        elts = value.elts if isinstance(value, ast.Tuple) else [value]
        out = []
        for e in elts:
            q = self.world.qualify(module_of(e), e)
            c = self.find(q) if q else None
            if c is None:
                raise Incomplete(site(value), f'{cls.name}.{name} names {ast.unparse(e)} which is not an in-package class')
            out.append(c)
        return out

    def is_tuple_attr(self, cls: ClassInfo, name: str) -> bool:
        value, _ = self.class_attr(cls, name)
        for _i in range(3):
            if isinstance(value, ast.Name):
                q0 = self.world.qualify(module_of(value), value)
                d = self.world.lookup(q0) if q0 else None
                if isinstance(d, (ast.Assign, ast.AnnAssign)) and d.value is not None:
                    value = d.value
                    continue
            break
        return isinstance(value, ast.Tuple)


def _expand_type_aliases(annotation: ast.AST, depth: int = 0) -> str:
    """The annotation text with module-level type aliases (`IndexType = int | slice | ...`) written out."""
    import copy

    module = getattr(annotation, '_module', None)
    if module is None or depth > 3:
        return ast.unparse(annotation)

    class T(ast.NodeTransformer):
        def visit_Name(self, n: ast.Name) -> ast.AST:
            d = module.defs.get(n.id)
            if isinstance(d, (ast.Assign, ast.AnnAssign)) and d.value is not None and isinstance(d.value, (ast.BinOp, ast.Subscript, ast.Name, ast.Attribute, ast.Tuple)):
                if isinstance(d, ast.AnnAssign) and 'TypeAlias' not in ast.unparse(d.annotation):
                    return n
                try:
                    return ast.parse(_expand_type_aliases(d.value, depth + 1), mode='eval').body
                except SyntaxError:
                    return n
            return n

    try:
        return ast.unparse(T().visit(copy.deepcopy(_strip(annotation))))
    except Exception:  # noqa: BLE001
        return ast.unparse(annotation)


def _strip(node: ast.AST) -> ast.AST:
    """A copy of an expression without the loader's back links (so that it can be deep-copied)."""
    return ast.parse(ast.unparse(node), mode='eval').body


def _is_property(world: World, k: ClassInfo, fn: ast.AST) -> bool:
    if not isinstance(fn, ast.FunctionDef):
        return False
    for d in fn.decorator_list:
        q = world.qualify(module_of(d), d)
        if q in ('property', 'builtins.property', 'functools.cached_property'):
            return True
    return False


def method_qual(res: Resolved) -> str:
    return qualname(res.node)

"""Axis-provenance interpreter.

Decides *where the axes of an array end up* after a sequence of reshapes, transpositions, axis moves, singleton
insertions and broadcasts, for code whose index arithmetic touches the requested axes only through comparisons, sums and
(arg)sorting.  Arrays are abstract: an array is the tuple of its axes, each axis a set of provenance labels (``d1`` = axis 1
of the stored values, ``x0`` = axis 0 of the input leaf; the empty set = a singleton inserted by the code) together with
a size used for shape arithmetic only.  The integer side (axis tuples, ranks, offsets) is concrete: the caller enumerates
every order type of the requested axes up to a small rank, which is exhaustive for code that is uniform in the sizes.

This is an abstract interpretation of the repository's *source* (the syntax trees of the analysed world); nothing of the
repository is imported or executed.  Whatever the interpreter does not model evaluates to UNK, which poisons everything
computed from it; a branch on UNK, or an UNK in the inspected result, makes the obligation undecided (never a violation).
"""

from __future__ import annotations

import ast
import itertools
from collections import Counter
from dataclasses import dataclass
from typing import Any

from .classes import ClassInfo, ClassTable, _is_property
from .loader import World, module_of, dotted


class Undecided(Exception):
    pass


class Raised(Exception):
    def __init__(self, name: str, node: ast.AST | None = None):
        super().__init__(name)
        self.name = name
        self.node = node


class _Return(Exception):
    def __init__(self, value: Any):
        self.value = value


class _Break(Exception):
    pass


class _Continue(Exception):
    pass


class _Unk:
    def __repr__(self) -> str:
        return 'UNK'


UNK = _Unk()


@dataclass(frozen=True)
class AxArr:
    """axes: tuple of (frozenset of labels, size)."""

    axes: tuple[tuple[frozenset, int], ...]
    dtype: Any = None  # only for rules that need to tell masks from integer arrays

    @property
    def shape(self) -> tuple[int, ...]:
        return tuple(s for _, s in self.axes)

    @property
    def ndim(self) -> int:
        return len(self.axes)

    def layout(self) -> tuple[frozenset, ...]:
        return tuple(l for l, _ in self.axes)

    def __repr__(self) -> str:
        return '[' + ', '.join('.'.join(sorted(l)) or '1' for l, _ in self.axes) + ']'


def _mk(op, x, y):
    return Sym(op, (x, y))


class _SymArith:
    def __add__(self, o):
        return _mk('+', self, o)

    def __radd__(self, o):
        return _mk('+', o, self)

    def __mul__(self, o):
        return _mk('*', self, o)

    def __rmul__(self, o):
        return _mk('*', o, self)

    def __sub__(self, o):
        return _mk('-', self, o)

    def __rsub__(self, o):
        return _mk('-', o, self)


@dataclass(frozen=True)
class Opaque(_SymArith):
    """A symbolic value the interpreter only moves around (an argument of the analysed function)."""

    name: str
    dtype: Any = None  # optional element type name ('float32', 'int16' ...) for rules that follow conversions


class PyStub:
    """A Python object supplied by a rule to stand for a runtime object (a context variable, a dataclass field ...): its
    attributes and methods are used as they are."""


@dataclass(frozen=True)
class IInfo:
    bits: int
    signed: bool = True

    @property
    def max(self) -> int:
        return 2 ** (self.bits - 1) - 1 if self.signed else 2 ** self.bits - 1

    @property
    def min(self) -> int:
        return -(2 ** (self.bits - 1)) if self.signed else 0


@dataclass(frozen=True)
class Sym(_SymArith):
    """A symbolic expression built from opaque values: attribute loads, calls, external functions."""

    op: str
    args: tuple = ()

    def __repr__(self) -> str:
        if self.op.startswith('.'):
            return f'{self.args[0]!r}{self.op}'
        if self.op == 'call':
            return f'{self.args[0]!r}(' + ', '.join(repr(x) for x in self.args[1:]) + ')'
        return f'{self.op}(' + ', '.join(repr(x) for x in self.args) + ')'


_DTYPE_KEEPING = {'jnp.round', 'jnp.rint', 'jnp.around', 'jnp.floor', 'jnp.ceil', 'jnp.trunc', 'jnp.abs', 'jnp.negative', 'neg', 'pos', 'jnp.asarray', 'jnp.array', 'jnp.squeeze', 'jnp.ravel'}


def _is_scalar_sym(x: Any) -> bool:
    """A symbolic 0-d value: an opaque named 'scalar:...' or arithmetic on such values and numbers."""
    if isinstance(x, Opaque):
        return x.name.startswith('scalar:')
    if isinstance(x, (int, float, complex)) and not isinstance(x, bool):
        return True
    if isinstance(x, Sym) and x.op in ('+', '-', '*', '/', 'neg', 'pos', 'jnp.asarray', 'jnp.array', '**') and x.args:
        return all(_is_scalar_sym(y) for y in x.args)
    return False


def sym_dtype(x: Any) -> str | None:
    """Element type of a symbolic array expression, when it follows from the expression alone."""
    if isinstance(x, Opaque):
        return x.dtype
    if isinstance(x, Sym):
        if x.op in _DTYPE_KEEPING and x.args:
            return sym_dtype(x.args[0])
        if x.op == 'call' and isinstance(x.args[0], Sym) and x.args[0].op == '.astype' and len(x.args) >= 2:
            t = x.args[1]
            if isinstance(t, Ref):
                return t.path.split('.')[-1]
            if isinstance(t, str):
                return t
    return None


_KINDS = {
    'integer': {'int8', 'int16', 'int32', 'int64', 'uint8', 'uint16', 'uint32', 'uint64'},
    'signedinteger': {'int8', 'int16', 'int32', 'int64'},
    'unsignedinteger': {'uint8', 'uint16', 'uint32', 'uint64'},
    'floating': {'float16', 'bfloat16', 'float32', 'float64'},
    'inexact': {'float16', 'bfloat16', 'float32', 'float64', 'complex64', 'complex128'},
    'complexfloating': {'complex64', 'complex128'},
    'number': {'int8', 'int16', 'int32', 'int64', 'uint8', 'uint16', 'uint32', 'uint64', 'float16', 'bfloat16', 'float32', 'float64', 'complex64', 'complex128'},
    'bool_': {'bool'},
}


@dataclass(frozen=True)
class Promoted:
    """value converted to the common dtype of `group` (names of the values promoted together)."""

    value: Any
    group: frozenset


@dataclass(frozen=True)
class Built:
    """An instance of a watched class built with these arguments."""

    cls: Any
    args: tuple
    kwargs: tuple


class StructLeaf(AxArr):
    """A leaf of a *structure* (jax.ShapeDtypeStruct stand-in): behaves like an array when a kernel is evaluated on it
    (eval_shape), and compares by shape like a ShapeDtypeStruct."""

    def __eq__(self, other: Any) -> bool:
        if not (isinstance(other, AxArr) and other.shape == self.shape):
            return False
        return self.dtype is None or other.dtype is None or str(self.dtype) == str(other.dtype)

    def __ne__(self, other: Any) -> bool:
        return not self.__eq__(other)

    def __hash__(self) -> int:
        return hash(self.shape)


def as_structure(v: Any) -> Any:
    if isinstance(v, AxArr):
        return StructLeaf(v.axes, v.dtype)
    if isinstance(v, (list, tuple)):
        return type(v)(as_structure(x) for x in v)
    if isinstance(v, dict):
        return {k: as_structure(x) for k, x in v.items()}
    return v


@dataclass(frozen=True)
class Flat:
    """A ravelled array (what was ravelled is kept for inspection)."""

    of: AxArr


@dataclass(frozen=True)
class Cat:
    parts: tuple


@dataclass(frozen=True)
class DiagOf:
    of: Any


@dataclass
class Obj:
    cls: ClassInfo
    attrs: dict


@dataclass
class Func:
    node: ast.AST  # FunctionDef | Lambda
    env: 'Env'
    self_obj: Any = None  # bound receiver (or None)
    cls: ClassInfo | None = None  # class through which it was resolved


@dataclass(frozen=True)
class Ref:
    path: str  # dotted external / module name


@dataclass(frozen=True, eq=False)
class ClassRef:
    cls: ClassInfo

    def __eq__(self, other: Any) -> bool:
        return isinstance(other, ClassRef) and other.cls is self.cls

    def __hash__(self) -> int:
        return id(self.cls)


_MISSING = object()


class Env:
    def __init__(self, module, parent: 'Env | None' = None):
        self.module = module
        self.parent = parent
        self.vars: dict[str, Any] = {}

    def lookup(self, name: str) -> tuple[bool, Any]:
        e: Env | None = self
        while e is not None:
            if name in e.vars:
                return True, e.vars[name]
            e = e.parent
        return False, None


def broadcast(arrays: list[AxArr]) -> AxArr:
    n = max(a.ndim for a in arrays)
    out = []
    for p in range(n):
        labels: frozenset = frozenset()
        size = 1
        for a in arrays:
            i = p - (n - a.ndim)
            if i < 0:
                continue
            l, s = a.axes[i]
            if s != 1 and size != 1 and s != size:
                raise Raised('ValueError')
            labels = labels | l
            size = max(size, s)
        out.append((labels, size))
    return AxArr(tuple(out))


def _norm_axis(a: int, n: int) -> int:
    if not isinstance(a, int) or isinstance(a, bool):
        raise Undecided('axis is not an integer')
    if not -n <= a < n:
        raise Raised('ValueError')
    return a % n if n else 0


def _axes_list(v: Any) -> list[int]:
    if isinstance(v, int) and not isinstance(v, bool):
        return [v]
    if isinstance(v, (tuple, list, range)):
        return list(v)
    raise Undecided('axes are not concrete')


def transpose(a: AxArr, perm: Any = None) -> AxArr:
    if perm is None:
        return AxArr(tuple(reversed(a.axes)))
    perm = [_norm_axis(p, a.ndim) for p in _axes_list(perm)]
    if sorted(perm) != list(range(a.ndim)):
        raise Raised('ValueError')
    return AxArr(tuple(a.axes[p] for p in perm))


def moveaxis(a: AxArr, src: Any, dst: Any) -> AxArr:
    s = [_norm_axis(x, a.ndim) for x in _axes_list(src)]
    d = [_norm_axis(x, a.ndim) for x in _axes_list(dst)]
    # (jax.numpy.moveaxis, unlike numpy's, does not refuse repeated destinations: the axes are inserted one after the other)
    if len(s) != len(d) or len(set(s)) != len(s):
        raise Raised('ValueError')
    order = [n for n in range(a.ndim) if n not in s]
    for dest, source in sorted(zip(d, s)):
        order.insert(dest, source)
    return AxArr(tuple(a.axes[p] for p in order))


def expand_dims(a: AxArr, axis: Any) -> AxArr:
    ax = _axes_list(axis)
    n = a.ndim + len(ax)
    pos = sorted(_norm_axis(x, n) for x in ax)
    if len(set(pos)) != len(pos):
        raise Raised('ValueError')
    it = iter(a.axes)
    return AxArr(tuple((frozenset(), 1) if p in pos else next(it) for p in range(n)))


def reshape(a: AxArr, shape: Any) -> Any:
    if isinstance(shape, int) and not isinstance(shape, bool):
        shape = (shape,)
    if not isinstance(shape, (tuple, list)) or not all(isinstance(s, int) and not isinstance(s, bool) for s in shape):
        raise Undecided('reshape to a non-concrete shape')
    shape = list(shape)
    total = 1
    for _, s in a.axes:
        total *= s
    if shape.count(-1) == 1:
        rest = 1
        for s in shape:
            if s != -1:
                rest *= s
        if rest == 0 or total % rest:
            raise Raised('TypeError')
        shape[shape.index(-1)] = total // rest
    prod = 1
    for s in shape:
        prod *= s
    if prod != total:
        raise Raised('TypeError')
    # axes of size one carry no data order: whatever label they had is irrelevant to where the values end up
    old_ns = [(l, s) for l, s in a.axes if s != 1]
    new_ns = [s for s in shape if s != 1]
    if [s for _, s in old_ns] != new_ns:
        merged = _merge_runs(old_ns, new_ns)
        if merged is None:
            if len(shape) == 1:
                return Flat(a)
            raise Undecided('reshape splits axes')
        it = iter(merged)
        return AxArr(tuple((frozenset(), 1) if s == 1 else next(it) for s in shape), a.dtype)
    it = iter(old_ns)
    return AxArr(tuple((frozenset(), 1) if s == 1 else next(it) for s in shape), a.dtype)


def _merge_runs(old_ns: list, new_ns: list) -> list | None:
    """Row-major reshape that only merges runs of consecutive axes: each new axis is one old axis or the merge of a run of
    them (label 'a*b*c', in that order).  None if an axis would have to be split."""
    out = []
    i = 0
    for s in new_ns:
        if i >= len(old_ns):
            return None
        labels, size = old_ns[i]
        names = ['.'.join(sorted(labels))]
        i += 1
        while size < s and i < len(old_ns):
            l2, s2 = old_ns[i]
            size *= s2
            names.append('.'.join(sorted(l2)))
            i += 1
        if size != s:
            return None
        out.append((frozenset({'*'.join(names)}) if len(names) > 1 else labels, s))
    return out if i == len(old_ns) else None


def squeeze(a: AxArr, axis: Any = None) -> AxArr:
    if axis is None:
        return AxArr(tuple(x for x in a.axes if x[1] != 1))
    pos = {_norm_axis(x, a.ndim) for x in _axes_list(axis)}
    if any(a.axes[p][1] != 1 for p in pos):
        raise Raised('ValueError')
    return AxArr(tuple(x for i, x in enumerate(a.axes) if i not in pos))


def index(a: AxArr, key: Any) -> AxArr:
    keys = list(key) if isinstance(key, tuple) else [key]
    if keys.count(Ellipsis) > 1:
        raise Raised('IndexError')
    consumed = sum(1 for k in keys if k is not None and k is not Ellipsis)
    if consumed > a.ndim:
        raise Raised('IndexError')
    out = []
    it = iter(a.axes)
    for k in keys:
        if k is None:
            out.append((frozenset(), 1))
        elif k is Ellipsis:
            for _ in range(a.ndim - consumed):
                out.append(next(it))
        elif isinstance(k, slice) and k == slice(None, None, None):
            out.append(next(it))
        else:
            raise Undecided('indexing that selects elements')
    out.extend(it)
    return AxArr(tuple(out))


_EXC_BUILTINS = {'ValueError', 'TypeError', 'IndexError', 'KeyError', 'NotImplementedError', 'AssertionError', 'RuntimeError', 'Exception', 'StopIteration'}

_PURE_BUILTINS: dict[str, Any] = {
    'len': len, 'min': min, 'max': max, 'sorted': sorted, 'range': range, 'tuple': tuple, 'list': list, 'zip': zip,
    'enumerate': enumerate, 'abs': abs, 'sum': sum, 'any': any, 'all': all, 'reversed': reversed, 'int': int, 'set': set,
    'frozenset': frozenset, 'dict': dict, 'bool': bool, 'divmod': divmod, 'str': str, 'repr': repr, 'slice': slice, 'next': next, 'iter': iter,
    'ord': ord, 'chr': chr,
}  # fmt: skip

_TYPE_NAMES = {'int': int, 'tuple': tuple, 'list': list, 'str': str, 'bool': bool, 'float': float, 'range': range, 'dict': dict, 'set': set, 'slice': slice}


def _concrete(v: Any) -> bool:
    if isinstance(v, (AxArr, Flat, Cat, DiagOf, Obj, Func, Ref, ClassRef, _Unk, Opaque, Promoted, Built, Sym, IInfo, PyStub)):
        return False
    if isinstance(v, (tuple, list, set, frozenset)):
        return all(_concrete(x) for x in v)
    if isinstance(v, dict):
        return all(_concrete(x) for x in v.values())
    return True


def _keyable(v: Any) -> bool:
    """Usable as a dictionary key the way Python would use it: concrete values, classes, and tuples of them."""
    if isinstance(v, ClassRef):
        return True
    if isinstance(v, tuple):
        return all(_keyable(x) for x in v)
    return _concrete(v) and not isinstance(v, (list, dict, set))


def _has_unk(v: Any, depth: int = 0) -> bool:
    if v is UNK:
        return True
    if depth > 6:
        return False
    if isinstance(v, (tuple, list)):
        return any(_has_unk(x, depth + 1) for x in v)
    if isinstance(v, (Flat, DiagOf)):
        return _has_unk(v.of, depth + 1)
    if isinstance(v, Cat):
        return any(_has_unk(x, depth + 1) for x in v.parts)
    return False


class Computed:
    """A watched external whose recorded answer depends on its arguments: Interp.watch_externals[path] = Computed(fn(args, kwargs))."""

    def __init__(self, fn) -> None:
        self.fn = fn


class Interp:
    """One interpreter per analysed world; ``steps`` bounds the work of one query."""

    def __init__(self, world: World, table: ClassTable, budget: int = 200_000):
        self.world = world
        self.table = table
        self.budget = budget
        self.steps = 0
        self.degraded: list[str] = []  # calls whose interpretation was abandoned (their result is UNK)
        self.symbolic = False  # attribute loads / calls on opaque values build Sym expressions instead of UNK
        self.summaries: dict = {}  # id(FunctionDef) -> callable(args, kwargs) used instead of interpreting that function
        self.constructible: set[str] = set()  # qualified class names whose constructor calls are followed (through __init__)
        self.watch_constructors: set[str] = set()  # qualified class names whose construction is recorded, not followed
        self.globals_override: dict = {}  # (module name, identifier) -> value of a module-level object built by the caller
        self.watch_externals: dict[str, Any] = {}  # external path -> stand-in result; the calls are recorded in external_calls
        self.external_calls: list[tuple[str, list, dict]] = []
        self.depth = 0

    # ------------------------------------------------------------------ helpers
    def _tick(self) -> None:
        self.steps += 1
        if self.steps > self.budget:
            raise Undecided('step budget exhausted')

    def new_object(self, cls: ClassInfo) -> Obj:
        return Obj(cls, {})

    def construct(self, cls: ClassInfo, *args: Any, **kwargs: Any) -> Obj:
        obj = Obj(cls, {})
        r = self.table.resolve(cls, '__init__')
        if r is None or not isinstance(r.node, ast.FunctionDef):
            raise Undecided(f'{cls.name} has no analysable __init__')
        self.call_function(Func(r.node, Env(module_of(r.node)), obj, r.found_on), list(args), dict(kwargs))
        return obj

    _BENIGN_DECORATORS = {'staticmethod', 'classmethod', 'property', 'abstractmethod', 'abc.abstractmethod', 'overload', 'typing.overload', 'override', 'typing.override',
                          'typing_extensions.override', 'functools.cached_property', 'cached_property', 'final', 'typing.final'}

    def method_func(self, node: ast.FunctionDef, env: 'Env', self_obj: Any, found_on: Any) -> Any:
        """The function a method name is bound to: the function itself, or what its decorators make of it (a decorator written in
        the analysed code is applied - the closure it returns is what gets called; an unknown one makes the method undecided)."""
        extra = [d for d in node.decorator_list if (dotted(d.func if isinstance(d, ast.Call) else d) or '?') not in self._BENIGN_DECORATORS]
        if not extra:
            return Func(node, env, self_obj, found_on)
        f: Any = Func(node, env, None, found_on)
        for d in reversed(extra):
            dv = self.eval(d, env)
            if dv is UNK or isinstance(dv, Ref):
                raise Undecided(f'method {node.name} is wrapped by the decorator {ast.unparse(d)[:40]}, which is not followed')
            f = self.call(dv, [f], {}, d)
            if not isinstance(f, Func):
                raise Undecided(f'the decorator {ast.unparse(d)[:40]} of {node.name} does not return a function of the analysed code')
        return Func(f.node, f.env, self_obj, found_on) if self_obj is not None else f

    def call_method(self, obj: Obj, name: str, *args: Any, **kwargs: Any) -> Any:
        f = self.get_attr(obj, name, None)
        return self.call(f, list(args), dict(kwargs), None)

    # ------------------------------------------------------------------ calls
    def call_function(self, f: Func, args: list, kwargs: dict) -> Any:
        self._tick()
        node = f.node
        if id(node) in self.summaries:
            return self.summaries[id(node)](([f.self_obj] if f.self_obj is not None else []) + list(args), kwargs)
        a = node.args
        env = Env(f.env.module, f.env)
        params = [p.arg for p in a.posonlyargs + a.args]
        if f.self_obj is not None:
            args = [f.self_obj] + list(args)
        if len(args) > len(params) and a.vararg is None:
            raise Raised('TypeError')
        for p, v in zip(params, args):
            env.vars[p] = v
        if a.vararg is not None:
            env.vars[a.vararg.arg] = tuple(args[len(params):])
        defaults = dict(zip(params[len(params) - len(a.defaults):], a.defaults))
        for p in params[len(args):]:
            if p in kwargs:
                env.vars[p] = kwargs.pop(p)
            elif p in defaults:
                env.vars[p] = self.eval(defaults[p], f.env)
            else:
                raise Raised('TypeError')
        for p, d in zip(a.kwonlyargs, a.kw_defaults):
            if p.arg in kwargs:
                env.vars[p.arg] = kwargs.pop(p.arg)
            elif d is not None:
                env.vars[p.arg] = self.eval(d, f.env)
            else:
                raise Raised('TypeError')
        if a.kwarg is not None:
            env.vars[a.kwarg.arg] = kwargs
        elif kwargs:
            raise Raised('TypeError')
        env.vars['__class_of_function__'] = f.cls
        if isinstance(node, ast.Lambda):
            return self.eval(node.body, env)
        self.depth += 1
        if self.depth > 40:
            self.depth -= 1
            raise Undecided('call depth')
        generator = _is_generator(node)
        if generator:
            env.vars['__yielded__'] = []
        try:
            self.exec_block(node.body, env)
        except _Return as r:
            return env.vars['__yielded__'] if generator else r.value
        finally:
            self.depth -= 1
        return env.vars['__yielded__'] if generator else None

    def call(self, f: Any, args: list, kwargs: dict, node: ast.AST | None) -> Any:
        self._tick()
        if f is UNK:
            return UNK
        if f is str and len(args) == 1 and not kwargs and isinstance(args[0], Obj):
            r_ = self.table.resolve(args[0].cls, '__str__')
            if r_ is not None and isinstance(r_.node, ast.FunctionDef):
                return self.call(Func(r_.node, Env(module_of(r_.node)), args[0], r_.found_on), [], {}, node)
            raise Undecided('str() of an object without __str__')
        if isinstance(f, Func):
            if f.self_obj is None and isinstance(f.node, ast.FunctionDef) and f.cls is not None and args and isinstance(args[0], Obj):
                pass  # explicit ``Class.method(self, ...)``
            try:
                return self.call_function(f, args, kwargs)
            except Undecided as e:
                self.degraded.append(f'{getattr(f.node, "name", "<lambda>")}: {e}')
                return UNK
        if isinstance(f, Sym) and self.symbolic:
            return Sym('call', (f,) + tuple(args) + tuple(v for _, v in sorted(kwargs.items())))
        if isinstance(f, ClassRef) and f.cls.qual in self.watch_constructors:
            return Built(f.cls, tuple(args), tuple(sorted(kwargs.items())))
        if isinstance(f, ClassRef) and f.cls.qual in self.constructible:
            if not any(isinstance(k_.own.get('__init__'), ast.FunctionDef) for k_ in f.cls.mro):
                names_ = [fld.name for fld in self.table.fields(f.cls)]
                if len(args) > len(names_) or any(k_ not in names_ for k_ in kwargs):
                    raise Raised('TypeError', node)
                attrs_ = dict(zip(names_, args))
                attrs_.update(kwargs)
                return Obj(f.cls, attrs_)
            return self.construct(f.cls, *args, **kwargs)
        if isinstance(f, ClassRef):
            names = self._record_fields(f.cls)
            if names is not None:
                if len(args) > len(names) or any(k not in names for k in kwargs):
                    raise Raised('TypeError', node)
                attrs = dict(zip(names, args))
                attrs.update(kwargs)
                for n in names:
                    if n not in attrs:
                        v = self._class_level_value(f.cls, n)
                        if v is None:
                            raise Raised('TypeError', node)
                        attrs[n] = self.eval(v, Env(module_of(v)))
                obj = Obj(f.cls, attrs)
                obj.attrs['__record_fields__'] = tuple(names)
                return obj
            return UNK
        if isinstance(f, Ref):
            return self.external(f.path, args, kwargs)
        if callable(f) and not isinstance(f, (AxArr, Obj)):
            # functions of the analysed code handed to a Python builtin (sorted(key=...), map, filter ...) are called back
            def _wrap(x: Any) -> Any:
                if isinstance(x, Func):
                    return lambda *a_, **k_: self.call(x, list(a_), dict(k_), None)
                return x

            args = [_wrap(x) for x in args]
            kwargs = {k_: _wrap(v_) for k_, v_ in kwargs.items()}
            try:
                return f(*args, **kwargs)
            except (Raised, Undecided):
                raise
            except ValueError:
                raise Raised('ValueError', node)
            except TypeError:
                if not all(_concrete(a) or callable(a) for a in list(args) + list(kwargs.values())):
                    return UNK
                raise Raised('TypeError', node)
            except (IndexError, KeyError, StopIteration) as e:
                raise Raised(type(e).__name__, node)
        raise Undecided('call of a non-callable abstract value')

    # ------------------------------------------------------------------ externals
    def external(self, path: str, args: list, kwargs: dict) -> Any:
        if path in self.watch_externals:
            self.external_calls.append((path, list(args), dict(kwargs)))
            w_ = self.watch_externals[path]
            return w_.fn(args, kwargs) if isinstance(w_, Computed) else w_
        for long, short in (('jax.numpy.', 'jnp.'), ('numpy.', 'jnp.'), ('jax.tree_util.tree_', 'jax.tree.'), ('jax.tree_util.', 'jax.tree.'), ('jax.lax.', 'lax.')):
            if path.startswith(long):
                path = short + path[len(long):]
        arr = [a for a in args if isinstance(a, AxArr)]

        def kw(name: str, pos: int, default: Any = None) -> Any:
            if len(args) > pos:
                return args[pos]
            return kwargs.get(name, default)

        if path == 'jnp.moveaxis' and arr:
            return moveaxis(args[0], kw('source', 1), kw('destination', 2))
        if path == 'jnp.transpose' and arr:
            return transpose(args[0], kw('axes', 1))
        if path in ('jnp.permute_dims',) and arr:
            return transpose(args[0], kw('axes', 1))
        if path == 'jnp.swapaxes' and arr:
            n = args[0].ndim
            i, j = _norm_axis(kw('axis1', 1), n), _norm_axis(kw('axis2', 2), n)
            perm = list(range(n))
            perm[i], perm[j] = perm[j], perm[i]
            return transpose(args[0], perm)
        if path == 'jnp.expand_dims' and arr:
            return expand_dims(args[0], kw('axis', 1))
        if path == 'jnp.reshape' and arr:
            return reshape(args[0], kw('shape', 1, kwargs.get('newshape')))
        if path == 'jnp.squeeze' and arr:
            return squeeze(args[0], kw('axis', 1))
        if path == 'jnp.ravel' and arr:
            return Flat(args[0])
        if path == 'jnp.broadcast_to' and arr:
            shape = kw('shape', 1)
            if not _concrete(shape):
                raise Undecided('broadcast_to a non-concrete shape')
            target = AxArr(tuple((frozenset(), s) for s in tuple(shape)))
            if args[0].ndim > target.ndim:
                raise Raised('ValueError')
            out = broadcast([args[0], target])
            if out.shape != target.shape:
                raise Raised('ValueError')
            return out
        if path == 'jnp.broadcast_shapes':
            if not all(_concrete(a) for a in args):
                return UNK
            return broadcast([AxArr(tuple((frozenset(), s) for s in tuple(a))) for a in args]).shape
        if path == 'jnp.broadcast_arrays' and arr and len(arr) == len(args):
            out = broadcast(list(args))
            return [broadcast([a, AxArr(tuple((frozenset(), s) for s in out.shape))]) for a in args]
        if path in ('jnp.multiply', 'jnp.add', 'jnp.divide', 'jnp.subtract', 'jnp.where', 'jnp.true_divide', 'jnp.logical_and', 'jnp.not_equal', 'jnp.equal') and arr:
            if any(a is UNK for a in args):
                return UNK
            return broadcast(arr)
        if path in ('jnp.asarray', 'jnp.array', 'jnp.conj', 'jnp.conjugate', 'jnp.reciprocal', 'jnp.abs', 'jnp.sqrt', 'jnp.real', 'jnp.negative', 'jnp.copy', 'jnp.isfinite', 'jnp.nan_to_num', 'lax.stop_gradient') and arr and args[0] is arr[0]:
            return args[0]
        if path in ('jnp.ndim', 'jnp.shape', 'jnp.size') and len(args) == 1 and _is_scalar_sym(args[0]):
            return {'jnp.ndim': 0, 'jnp.shape': (), 'jnp.size': 1}[path]
        if path == 'jnp.ndim' and arr:
            return args[0].ndim
        if path == 'jnp.shape' and arr:
            return args[0].shape
        if path == 'jnp.size' and arr and len(args) == 1:
            return self.attr_of_array(args[0], 'size')
        if path in ('jnp.ones', 'jnp.zeros', 'jnp.empty') and args and _concrete(args[0]):
            shape = args[0] if isinstance(args[0], (tuple, list)) else (args[0],)
            return AxArr(tuple((frozenset(), s) for s in shape))
        if path in ('jnp.ones_like', 'jnp.zeros_like') and arr:
            return AxArr(tuple((frozenset(), s) for s in args[0].shape))
        if path == 'jnp.concatenate' and args and isinstance(args[0], (list, tuple)):
            return Cat(tuple(args[0]))
        if path == 'jnp.diag' and args:
            return DiagOf(args[0])
        if path in ('jnp.argsort', 'jnp.sort', 'jnp.prod', 'math.prod') and args and _concrete(args[0]):
            seq = list(args[0])
            if path == 'jnp.argsort':
                return sorted(range(len(seq)), key=seq.__getitem__)
            if path == 'jnp.sort':
                return sorted(seq)
            p = 1
            for s in seq:
                p *= s
            return p
        if path in ('jax.tree.map',) and len(args) >= 2:
            if all(isinstance(t, AxArr) for t in args[1:]):
                return self.call(args[0], list(args[1:]), {}, None)
            flat = [_tree_flatten(t, kwargs.get('is_leaf'), self) for t in args[1:]]
            if all(f_ is not None for f_ in flat) and all(f_[1] == flat[0][1] for f_ in flat):
                outs = [self.call(args[0], [f_[0][i] for f_ in flat], {}, None) for i in range(len(flat[0][0]))]
                return _tree_unflatten(flat[0][1], outs)
            return UNK
        if path in ('jax.tree.leaves', 'jax.tree.flatten', 'jax.tree.structure') and args:
            f_ = _tree_flatten(args[0], kwargs.get('is_leaf'), self)
            if f_ is None:
                return UNK
            if path.endswith('leaves'):
                return list(f_[0])
            td = TreeDef(f_[1], len(f_[0]))
            return td if path.endswith('structure') else (list(f_[0]), td)
        if path == 'jax.tree.unflatten' and len(args) == 2 and isinstance(args[0], TreeDef):
            return args[0].unflatten(self.iterate(args[1]))
        if path == 'jax.tree.reduce' and len(args) in (2, 3):
            f_ = _tree_flatten(args[1], kwargs.get('is_leaf'), self)
            if f_ is None:
                return UNK
            return self.external('functools.reduce', [args[0], list(f_[0])] + list(args[2:]), {})
        if path == 'jax.tree.all' and len(args) == 1:
            f_ = _tree_flatten(args[0], kwargs.get('is_leaf'), self)
            if f_ is None:
                return UNK
            return all(self.truth(x) for x in f_[0])
        if path == 'operator.methodcaller' and args and isinstance(args[0], str):
            name_, margs, mkw = args[0], list(args[1:]), dict(kwargs)
            return lambda o: self.call(self.get_attr(o, name_, None), list(margs), dict(mkw), None)
        if path == 'operator.attrgetter' and len(args) == 1 and isinstance(args[0], str):
            names_ = args[0].split('.')

            def _get(o: Any) -> Any:
                for n_ in names_:
                    o = self.get_attr(o, n_, None)
                return o

            return _get
        if path == 'jax.random.split' and len(args) == 2 and isinstance(args[1], int) and isinstance(args[0], (Opaque, Sym)):
            return tuple(Sym('jax.random.split[]', (args[0], args[1], i)) for i in range(args[1]))
        if path == 'furax.tree.as_promoted_dtype' and len(args) == 1 and not kwargs and isinstance(args[0], (tuple, list)) and all(isinstance(x, (Opaque, Promoted)) for x in args[0]):
            group = frozenset(x.name if isinstance(x, Opaque) else x.value for x in args[0])
            out = [Promoted(x, group) for x in args[0]]
            return tuple(out) if isinstance(args[0], tuple) else out
        if path == 'furax.tree.is_leaf' and args:
            if isinstance(args[0], AxArr):
                return True
            return UNK
        if path == 'jnp.issubdtype' and len(args) == 2 and all(isinstance(x, Ref) for x in args):
            a_, b_ = args[0].path.split('.')[-1], args[1].path.split('.')[-1]
            if b_ in _KINDS and a_ in _KINDS['number'] | {'bool'}:
                return a_ in _KINDS[b_]
            if a_ in _KINDS['number'] and b_ in _KINDS['number']:
                return a_ == b_
            return UNK
        if path == 'jax.ShapeDtypeStruct' and args and isinstance(args[0], (tuple, list)) and all(isinstance(x_, int) for x_ in args[0]):
            return StructLeaf(tuple((frozenset(), x_) for x_ in args[0]))
        if path == 'jnp.iinfo' and len(args) == 1:
            x = args[0]
            if isinstance(x, IInfo):
                return x
            if isinstance(x, Ref):
                m_ = __import__('re').fullmatch(r'(u?)int(8|16|32|64)', x.path.split('.')[-1])
                if m_:
                    return IInfo(int(m_.group(2)), not m_.group(1))
            return UNK
        if path == 'functools.reduce' and len(args) in (2, 3) and not kwargs:
            items = self.iterate(args[1])
            if len(args) == 3:
                acc = args[2]
            elif items:
                acc, items = items[0], items[1:]
            else:
                raise Raised('TypeError')
            for x in items:
                acc = self.call(args[0], [acc, x], {}, None)
            return acc
        if path in ('jnp.array', 'jnp.asarray') and len(args) >= 1 and isinstance(args[0], (bool, int, float)) :
            return args[0]
        if path == 'dataclasses.fields' and len(args) == 1 and isinstance(args[0], (ClassRef, Obj)):
            k_ = args[0].cls
            names_ = self._record_fields(k_) or [f.name for f in self.table.fields(k_)]
            out_ = []
            for n_ in names_:
                st = PyStub()
                st.name = n_
                out_.append(st)
            return tuple(out_)
        if path == 'dataclasses.replace' and len(args) == 1 and isinstance(args[0], Obj):
            names_ = args[0].attrs.get('__record_fields__') or tuple(k_ for k_ in args[0].attrs)
            if any(k_ not in names_ for k_ in kwargs):
                raise Raised('TypeError')
            new_ = Obj(args[0].cls, dict(args[0].attrs))
            new_.attrs.update(kwargs)
            return new_
        if path == 'dataclasses.asdict' and len(args) == 1 and isinstance(args[0], Obj):
            return {k_: v_ for k_, v_ in args[0].attrs.items() if k_ != '__record_fields__'}
        if path in ('typing.get_args', 'typing_extensions.get_args') and len(args) == 1 and isinstance(args[0], PyStub) and hasattr(args[0], 'literal_args'):
            return tuple(args[0].literal_args)
        if path in ('typing.cast', 'typing_extensions.cast') and len(args) == 2:
            return args[1]
        if path == 'operator.index' and len(args) == 1:
            if isinstance(args[0], int) and not isinstance(args[0], bool):
                return args[0]
            if _concrete(args[0]):
                raise Raised('TypeError')
            return UNK
        if path.startswith('operator.') and len(args) == 2 and not kwargs and any(isinstance(x, Obj) for x in args):
            op_ = {v: k for k, v in self._DUNDERS.items()}.get(path.split('.', 1)[1].strip('_'))
            if op_ is not None:
                return self._object_binop(op_, args[0], args[1])
        if self.symbolic and path.startswith('operator.') and len(args) == 2 and not kwargs and any(isinstance(x, (Opaque, Sym)) for x in args) and not any(x is UNK for x in args):
            sym_ = {'mul': '*', 'add': '+', 'sub': '-', 'truediv': '/', 'pow': '**', 'floordiv': '//', 'mod': '%', 'and': '&', 'or': '|'}.get(path.split('.', 1)[1].strip('_'))
            if sym_ is not None:
                if sym_ == '*' and args[0] == 1 and not isinstance(args[0], bool):
                    return args[1]
                if sym_ == '*' and args[1] == 1 and not isinstance(args[1], bool):
                    return args[0]
                return Sym(sym_, (args[0], args[1]))
        if path.startswith('operator.') and all(_concrete(x) for x in args) and not kwargs:
            import operator as _op

            fn_ = getattr(_op, path.split('.', 1)[1], None)
            if callable(fn_) and path.split('.', 1)[1] in ('add', 'sub', 'mul', 'neg', 'lt', 'le', 'gt', 'ge', 'eq', 'ne', 'mod', 'floordiv', 'getitem', 'contains', 'not_', 'truth', 'abs'):
                return fn_(*args)
        if path == 'collections.Counter' and args and _concrete(args[0]):
            return Counter(args[0])
        if path in ('operator.itemgetter',) and all(_concrete(a) for a in args):
            import operator

            return operator.itemgetter(*args)
        if path == 'itertools.accumulate' and args:
            items_ = self.iterate(args[0])
            func_ = args[1] if len(args) > 1 else kwargs.get('func')
            out_ = []
            if 'initial' in kwargs and kwargs['initial'] is not None:
                out_.append(kwargs['initial'])
            for x_ in items_:
                if not out_:
                    out_.append(x_)
                elif func_ is None:
                    out_.append(self.external('operator.add', [out_[-1], x_], {}))
                else:
                    out_.append(self.call(func_, [out_[-1], x_], {}, None))
            return out_
        if path == 'itertools.chain.from_iterable' and len(args) == 1 and _concrete(args[0]):
            return list(itertools.chain.from_iterable(args[0]))
        if path == 'itertools.chain' and all(_concrete(a) for a in args):
            return list(itertools.chain(*args))
        if self.symbolic and path in ('jnp.asarray', 'jnp.array') and len(args) == 1 and _is_scalar_sym(args[0]):
            return args[0]
        if self.symbolic and any(isinstance(x, (Opaque, Sym)) for x in list(args) + list(kwargs.values())) and not path.startswith('furax.'):
            return Sym(path, tuple(args) + tuple(v for _, v in sorted(kwargs.items())))
        # in-package function: interpret its definition
        d = self.world.lookup(path) if path.startswith('furax.') else None
        if isinstance(d, ast.FunctionDef):
            try:
                return self.call_function(Func(d, Env(module_of(d))), args, kwargs)
            except Undecided as e:
                self.degraded.append(f'{path}: {e}')
                return UNK
        return UNK

    # ------------------------------------------------------------------ attributes
    def attr_of_array(self, a: AxArr, name: str) -> Any:
        if name == 'shape':
            return a.shape
        if name == 'ndim':
            return a.ndim
        if name == 'size':
            p = 1
            for s in a.shape:
                p *= s
            return p
        if name in ('T', 'mT'):
            return transpose(a)
        if name in ('real', 'imag'):
            return a
        if name == 'dtype':
            return a.dtype if a.dtype is not None else UNK
        if name == 'reshape':
            return lambda *s, **k: reshape(a, s[0] if len(s) == 1 else tuple(s))
        if name == 'transpose':
            return lambda *p: transpose(a, None if not p or p == (None,) else (p[0] if len(p) == 1 and not isinstance(p[0], int) else list(p)))
        if name in ('ravel', 'flatten'):
            return lambda *x, **k: Flat(a)
        if name == 'swapaxes':
            return lambda i, j: self.external('jnp.swapaxes', [a, i, j], {})
        if name == 'squeeze':
            return lambda axis=None: squeeze(a, axis)
        if name in ('astype', 'conj', 'conjugate', 'copy', 'view'):
            return lambda *x, **k: a
        return UNK

    def get_attr(self, v: Any, name: str, node: ast.AST | None) -> Any:
        if v is UNK:
            return UNK
        if isinstance(v, int) and not isinstance(v, bool) and name in ('bit_length', 'bit_count', 'conjugate', '__index__'):
            return getattr(v, name)
        if isinstance(v, (int, float, complex)) and not isinstance(v, bool) and name in ('shape', 'ndim', 'size'):
            return {'shape': (), 'ndim': 0, 'size': 1}[name]
        if isinstance(v, (Opaque, Sym)) and self.symbolic:
            if name == 'dtype' and sym_dtype(v) is not None:
                return Ref('numpy.' + sym_dtype(v))
            if name in ('shape', 'ndim', 'size') and _is_scalar_sym(v):
                return {'shape': (), 'ndim': 0, 'size': 1}[name]
            return Sym('.' + name, (v,))
        if isinstance(v, AxArr):
            return self.attr_of_array(v, name)
        if isinstance(v, Flat):
            if name in ('ravel', 'flatten', 'astype', 'copy'):
                return lambda *x, **k: v
            return UNK
        if isinstance(v, Obj):
            if name in v.attrs:
                return v.attrs[name]
            if '__record_fields__' in v.attrs and name in ('_asdict', '_fields', '_replace'):
                fields_ = v.attrs['__record_fields__']
                if name == '_fields':
                    return tuple(fields_)
                if name == '_asdict':
                    return lambda: {n_: v.attrs[n_] for n_ in fields_}

                def _replace(**changes: Any) -> Any:
                    if any(k_ not in fields_ for k_ in changes):
                        raise Raised('ValueError')
                    new_ = Obj(v.cls, dict(v.attrs))
                    new_.attrs.update(changes)
                    return new_

                return _replace
            return self.class_attr(v.cls, name, v)
        if isinstance(v, ClassRef):
            if name == '__mro__':
                return tuple(ClassRef(k) for k in v.cls.mro)
            if name in ('__name__', '__qualname__'):
                return v.cls.name
            if name == '__new__' and not any('__new__' in k.own for k in v.cls.mro):
                return Ref('builtins.object.__new__')
            return self.class_attr(v.cls, name, None)
        if isinstance(v, Ref):
            return Ref(v.path + '.' + name)
        if isinstance(v, (tuple, list, dict, set, frozenset, Counter, str, range)):
            if name in ('append', 'extend', 'insert', 'pop', 'remove', 'sort', 'reverse', 'clear', 'update', 'setdefault', 'add', 'discard',
                        'index', 'count', 'items', 'keys', 'values', 'get', 'copy', 'most_common', 'union', 'intersection', 'difference', 'join',
                        'symmetric_difference', 'issubset', 'issuperset', 'isdisjoint') and hasattr(v, name):
                return getattr(v, name)
            if name in ('__getitem__', '__contains__', '__len__', '__iter__') and hasattr(v, name):
                return getattr(v, name)
            if isinstance(v, str) and name in ('split', 'rsplit', 'replace', 'find', 'rfind', 'rindex', 'translate', 'startswith', 'endswith', 'strip', 'lstrip', 'rstrip', 'partition',
                                               'rpartition', 'isalpha', 'isdigit', 'lower', 'upper', 'removeprefix', 'removesuffix', 'format', 'splitlines', 'isidentifier', 'isascii'):
                return getattr(v, name)
            return UNK
        if isinstance(v, slice) and name in ('start', 'stop', 'step'):
            return getattr(v, name)
        if isinstance(v, IInfo) and name in ('max', 'min', 'bits'):
            return getattr(v, name)
        if isinstance(v, PyStub):
            if hasattr(v, name):
                return getattr(v, name)
            raise Raised('AttributeError')
        if v is str and name in ('maketrans', 'join'):
            return getattr(str, name)
        if v is dict and name == 'fromkeys':
            return lambda keys, *val: dict.fromkeys(self.iterate(keys), *val)
        return UNK

    def _record_fields(self, cls: ClassInfo) -> list[str] | None:
        """Field names of a plain record class (typing.NamedTuple, or a dataclass without __init__), else None."""
        ext = {b.split('.')[-1] for k in cls.mro for b in k.external_bases}
        decos = {d.split('.')[-1] for d in cls.decorators}
        if 'NamedTuple' not in ext and 'dataclass' not in decos:
            return None
        if any('__init__' in k.own or '__new__' in k.own for k in cls.mro):
            return None
        names: list[str] = []
        for k in reversed(cls.mro):
            for f in k.own_fields:
                if f.name not in names:
                    names.append(f.name)
        return names or None

    def _class_level_value(self, cls: ClassInfo, name: str) -> ast.AST | None:
        for k in cls.mro:
            node = k.own.get(name)
            if isinstance(node, (ast.Assign, ast.AnnAssign)) and node.value is not None:
                return node.value
            for f in k.own_fields:
                if f.name == name:
                    v = f.node.value
                    if v is not None and not (isinstance(v, ast.Call) and (dotted(v.func) or '').split('.')[-1] == 'field'):
                        return v
                    return None
        return None

    def class_attr(self, cls: ClassInfo, name: str, obj: Obj | None) -> Any:
        r = self.table.resolve(cls, name)
        if r is None and obj is None and name in ('in_structure', 'out_structure', 'mv', 'as_matrix', 'transpose') and any(b.endswith('AbstractLinearOperator') for k in cls.mro for b in k.external_bases):
            return lambda *a_, **k_: None  # an abstract method of lineax.AbstractLinearOperator called unbound: its body is empty
        if r is None:
            value = self._class_level_value(cls, name)
            if value is not None:
                try:
                    return self.eval(value, Env(module_of(value)))
                except Undecided:
                    return UNK
            if obj is None:
                return UNK
            raise Undecided(f'attribute {name} of {cls.name} is not set')
        if isinstance(r.node, ast.FunctionDef):
            static = any(dotted(d) in ('staticmethod',) for d in r.node.decorator_list)
            clsm = any(dotted(d) in ('classmethod',) for d in r.node.decorator_list)
            env = Env(module_of(r.node))
            if r.is_property or _is_property(self.world, cls, r.node):
                if obj is None:
                    return UNK
                return self.call(Func(r.node, env, obj, r.found_on), [], {}, None)
            if static:
                return Func(r.node, env, None, r.found_on)
            if clsm:
                return Func(r.node, env, ClassRef(cls), r.found_on)
            return self.method_func(r.node, env, obj, r.found_on)
        if isinstance(r.node, ast.Lambda):
            return Func(r.node, Env(module_of(r.node)), obj, r.found_on)
        if isinstance(r.node, (ast.Assign, ast.AnnAssign)) and r.node.value is not None:
            if obj is not None and isinstance(r.node, ast.AnnAssign) and dotted(r.node.value.func if isinstance(r.node.value, ast.Call) else r.node.value) in ('equinox.field', 'field', 'eqx.field'):
                raise Undecided(f'field {name} is not set')
            try:
                return self.eval(r.node.value, Env(module_of(r.node)))
            except Undecided:
                return UNK
        if obj is not None:
            raise Undecided(f'field {name} is not set')
        return UNK

    # ------------------------------------------------------------------ names
    def name(self, ident: str, env: Env, node: ast.AST) -> Any:
        found, v = env.lookup(ident)
        if found:
            return v
        module = env.module
        if (module.name, ident) in self.globals_override:
            return self.globals_override[(module.name, ident)]
        if ident in module.imports:
            q0 = self.world.canonical(module.imports[ident])
            mod0, _, name0 = q0.rpartition('.')
            if (mod0, name0) in self.globals_override:
                return self.globals_override[(mod0, name0)]
        if ident in module.defs and ident not in module.imports:
            d = module.defs[ident]
            if isinstance(d, ast.FunctionDef):
                return Func(d, Env(module))
            if isinstance(d, ast.ClassDef):
                k = self.table.find(f'{module.name}.{ident}')
                return ClassRef(k) if k is not None else UNK
            if isinstance(d, (ast.Assign, ast.AnnAssign)) and d.value is not None:
                try:
                    return self.eval(d.value, Env(module))
                except Undecided:
                    return UNK
            return UNK
        if ident in module.imports:
            q = self.world.canonical(module.imports[ident])
            d = self.world.lookup(q) if q.startswith('furax') else None
            if isinstance(d, ast.ClassDef):
                k = self.table.find(q)
                return ClassRef(k) if k is not None else UNK
            if isinstance(d, ast.FunctionDef):
                return Ref(q)
            if isinstance(d, (ast.Assign, ast.AnnAssign)) and d.value is not None:
                try:
                    return self.eval(d.value, Env(module_of(d)))
                except Undecided:
                    return UNK
            return Ref(q)
        if ident == 'len':
            return self._len
        if ident == 'NotImplemented':
            return NotImplemented
        if ident == 'setattr':
            return self._setattr
        if ident == 'object':
            return Ref('builtins.object')
        if ident == 'next':
            def _next(it_: Any, *default: Any) -> Any:
                items_ = self.iterate(it_)
                if items_:
                    return items_[0]
                if default:
                    return default[0]
                raise Raised('StopIteration')

            return _next
        if ident == 'vars':
            return lambda o: dict(o.attrs) if isinstance(o, Obj) else UNK
        if ident in _PURE_BUILTINS:
            return _PURE_BUILTINS[ident]
        if ident == 'len':
            return self._len
        if ident == 'getattr':
            return self._getattr
        if ident == 'hasattr':
            return lambda o, n: self._getattr(o, n, _MISSING) is not _MISSING
        if ident == 'type':
            return self._type
        if ident == 'issubclass':
            return lambda c, t: UNK if not isinstance(c, ClassRef) else any(isinstance(x, ClassRef) and self.table.is_subclass(c.cls, x.cls) for x in (t if isinstance(t, tuple) else (t,)))
        if ident == 'isinstance':
            return self._isinstance
        if ident in ('map', 'filter'):
            return lambda f, *its: [self.call(f, list(xs), {}, None) for xs in zip(*its)] if ident == 'map' else [x for x in its[0] if self.truth(self.call(f, [x], {}, None))]
        if ident in _TYPE_NAMES or ident in _EXC_BUILTINS:
            return Ref('builtins.' + ident)
        if ident in ('Ellipsis',):
            return Ellipsis
        return UNK

    def _setattr(self, o: Any, name: Any, value: Any) -> Any:
        if isinstance(o, Obj) and isinstance(name, str):
            o.attrs[name] = value
            return None
        if o is UNK:
            return None
        raise Undecided('setattr on an abstract value')

    def _len(self, v: Any) -> Any:
        if isinstance(v, Obj):
            if '__record_fields__' in v.attrs:
                return len(v.attrs['__record_fields__'])
            r = self.table.resolve(v.cls, '__len__')
            if r is None or not isinstance(r.node, ast.FunctionDef):
                return UNK
            return self.call(Func(r.node, Env(module_of(r.node)), v, r.found_on), [], {}, None)
        if isinstance(v, AxArr):
            if not v.axes:
                raise Raised('TypeError')
            return v.axes[0][1]
        if v is UNK or isinstance(v, (Opaque, Sym, Flat, Cat, DiagOf, Func, Ref, ClassRef)):
            return UNK
        try:
            return len(v)
        except TypeError:
            raise Raised('TypeError')

    def _getattr(self, o: Any, name: Any, *default: Any) -> Any:
        if not isinstance(name, str):
            return UNK
        if isinstance(o, (Obj, ClassRef)):
            cls = o.cls
            if isinstance(o, Obj) and name in o.attrs:
                return o.attrs[name]
            if self.table.resolve(cls, name) is None and self._class_level_value(cls, name) is None:
                if default:
                    return default[0]
                raise Raised('AttributeError')
        return self.get_attr(o, name, None)

    def _type(self, v: Any) -> Any:
        if isinstance(v, Obj):
            return ClassRef(v.cls)
        if _concrete(v):
            return type(v)
        return UNK

    def _isinstance(self, v: Any, t: Any) -> Any:
        ts = list(t) if isinstance(t, tuple) else [t]
        if v is UNK:
            return UNK
        res = False
        for x in ts:
            if isinstance(x, type) and x in _TYPE_NAMES.values():
                x = Ref('builtins.' + x.__name__)
            if isinstance(x, Ref) and x.path.startswith('builtins.') and x.path[9:] in _TYPE_NAMES:
                py = _TYPE_NAMES[x.path[9:]]
                if _concrete(v) or isinstance(v, (tuple, list)):
                    res = res or (isinstance(v, py) and not (py is int and isinstance(v, bool)))
                continue
            if isinstance(x, ClassRef):
                if isinstance(v, Obj):
                    res = res or self.table.is_subclass(v.cls, x.cls)
                continue
            if isinstance(x, Ref) and isinstance(v, Obj) and '.' in x.path and not x.path.startswith('builtins.'):
                # an external class: does the object's class derive from it?
                ext = {b for k_ in v.cls.mro for b in k_.external_bases}
                res = res or any(b == x.path or b.split('.')[-1] == x.path.split('.')[-1] for b in ext)
                continue
            if isinstance(x, Ref) and x.path.split('.')[-1] == 'ShapeDtypeStruct':
                if isinstance(v, (Opaque, Sym, AxArr, Promoted)) or _concrete(v):
                    continue  # symbolic values stand for arrays
                return UNK
            if isinstance(x, Ref) and x.path.split('.')[-1] in ('EllipsisType', 'ellipsis'):
                res = res or v is Ellipsis
                continue
            if isinstance(x, Ref) and x.path.split('.')[-1] == 'NoneType':
                res = res or v is None
                continue
            if isinstance(x, Ref) and x.path.split('.')[-1] == 'generic':
                continue  # numpy scalars: none of the abstract values is one
            if isinstance(x, Ref) and x.path.split('.')[-1] in ('Array', 'ndarray', 'ArrayLike'):
                res = res or isinstance(v, AxArr)
                continue
            if isinstance(x, Ref) and x.path.split('.')[-1] in ('Sequence', 'Iterable', 'Collection'):
                res = res or isinstance(v, (tuple, list, range))
                continue
            if isinstance(x, Ref) and x.path.split('.')[-1] in ('Integral', 'integer'):
                res = res or (isinstance(v, int) and not isinstance(v, bool))
                continue
            return UNK
        return res

    def iterate(self, v: Any) -> list:
        if isinstance(v, Obj) and '__record_fields__' in v.attrs:
            return [v.attrs[n] for n in v.attrs['__record_fields__']]
        if isinstance(v, Obj):
            r = self.table.resolve(v.cls, '__iter__')
            if r is None or not isinstance(r.node, ast.FunctionDef):
                raise Undecided('iteration over an object without __iter__')
            return self.iterate(self.call(Func(r.node, Env(module_of(r.node)), v, r.found_on), [], {}, None))
        if v is UNK or isinstance(v, (AxArr, Flat, Cat, DiagOf, Func, Ref, ClassRef)):
            raise Undecided('iteration over an abstract value')
        try:
            return list(v)
        except TypeError:
            raise Undecided('iteration over a non-iterable')

    def truth(self, v: Any) -> bool:
        if v is UNK or isinstance(v, (AxArr, Flat, Cat, DiagOf, Opaque, Sym, Promoted, Built)):
            raise Undecided('branch on an abstract value')
        if isinstance(v, (Obj, Func, Ref, ClassRef)):
            return True
        return bool(v)

    # ------------------------------------------------------------------ statements
    def exec_block(self, body: list[ast.stmt], env: Env) -> None:
        for st in body:
            self.exec(st, env)

    def assign(self, target: ast.AST, value: Any, env: Env) -> None:
        if isinstance(target, ast.Name):
            env.vars[target.id] = value
        elif isinstance(target, (ast.Tuple, ast.List)):
            if value is UNK:
                for t in target.elts:
                    self.assign(t.value if isinstance(t, ast.Starred) else t, UNK, env)
                return
            if isinstance(value, Obj) and '__record_fields__' in value.attrs:
                value = self.iterate(value)
            if isinstance(value, (set, frozenset, dict, str)) and _concrete(value):
                if isinstance(value, (set, frozenset)) and len(value) > 1:
                    raise Undecided('unpacking a set of several elements (order not defined)')
                value = list(value)
            if not isinstance(value, (tuple, list, range)):
                raise Undecided('unpacking an abstract value')
            vals = list(value)
            stars = [i for i, t in enumerate(target.elts) if isinstance(t, ast.Starred)]
            if stars:
                i = stars[0]
                after = len(target.elts) - i - 1
                if len(vals) < len(target.elts) - 1:
                    raise Raised('ValueError')
                parts = vals[:i] + [vals[i:len(vals) - after]] + vals[len(vals) - after:]
                for t, v in zip(target.elts, parts):
                    self.assign(t.value if isinstance(t, ast.Starred) else t, v, env)
            else:
                if len(vals) != len(target.elts):
                    raise Raised('ValueError')
                for t, v in zip(target.elts, vals):
                    self.assign(t, v, env)
        elif isinstance(target, ast.Attribute):
            o = self.eval(target.value, env)
            if isinstance(o, Obj):
                o.attrs[target.attr] = value
            elif o is not UNK:
                raise Undecided('attribute store on a non-object')
        elif isinstance(target, ast.Subscript):
            o = self.eval(target.value, env)
            k = self.eval(target.slice, env)
            if o is UNK:
                return
            if isinstance(o, dict) and _keyable(k):
                o[k] = value
            elif isinstance(o, (list, dict)) and _concrete(k):
                if isinstance(k, slice) and not isinstance(value, (list, tuple)):
                    if value is UNK or isinstance(value, (Opaque, Sym)):
                        raise Undecided(f'slice store of an abstract value (line {target.lineno})')
                    raise Raised('TypeError', target)
                try:
                    o[k] = value
                except (IndexError, KeyError) as e:
                    raise Raised(type(e).__name__, target)
            else:
                raise Undecided('item store on an abstract value')
        else:
            raise Undecided('assignment target')

    def exec(self, st: ast.stmt, env: Env) -> None:
        self._tick()
        if isinstance(st, ast.Expr):
            if isinstance(st.value, ast.Constant):
                return
            self.eval(st.value, env)
        elif isinstance(st, ast.Assign):
            v = self.eval(st.value, env)
            for t in st.targets:
                self.assign(t, v, env)
        elif isinstance(st, ast.AnnAssign):
            if st.value is not None:
                self.assign(st.target, self.eval(st.value, env), env)
        elif isinstance(st, ast.AugAssign) and isinstance(st.op, ast.BitOr) and isinstance(self.eval(_as_load(st.target), env), dict):
            # d |= other updates the dictionary d in place (d | other builds a new one)
            cur_, val_ = self.eval(_as_load(st.target), env), self.eval(st.value, env)
            if not isinstance(val_, dict):
                raise Undecided('|= of a dictionary with an abstract value')
            cur_.update(val_)
        elif isinstance(st, ast.AugAssign):
            load = ast.copy_location(ast.BinOp(left=_as_load(st.target), op=st.op, right=st.value), st)
            self.assign(st.target, self.eval(load, env), env)
        elif isinstance(st, ast.Return):
            raise _Return(self.eval(st.value, env) if st.value is not None else None)
        elif isinstance(st, ast.If):
            try:
                t_ = self.truth(self.eval(st.test, env))
            except Undecided as exc:
                if 'line ' not in str(exc):
                    raise Undecided(f'{exc} (line {getattr(st, "lineno", "?")}: if {ast.unparse(st.test)[:60]})') from None
                raise
            self.exec_block(st.body if t_ else st.orelse, env)
        elif isinstance(st, ast.For):
            broke = False
            for v in self.iterate(self.eval(st.iter, env)):
                self.assign(st.target, v, env)
                try:
                    self.exec_block(st.body, env)
                except _Break:
                    broke = True
                    break
                except _Continue:
                    continue
            if not broke:
                self.exec_block(st.orelse, env)
        elif isinstance(st, ast.While):
            n = 0
            while self.truth(self.eval(st.test, env)):
                n += 1
                if n > 1000:
                    raise Undecided('loop bound')
                try:
                    self.exec_block(st.body, env)
                except _Break:
                    break
                except _Continue:
                    continue
        elif isinstance(st, ast.Raise):
            name = 'Exception'
            if st.exc is not None:
                e = st.exc.func if isinstance(st.exc, ast.Call) else st.exc
                name = (dotted(e) or 'Exception').split('.')[-1]
                found_, bound_ = env.lookup(name)
                if found_ and isinstance(bound_, str) and bound_.startswith('exception:'):
                    name = bound_[10:]  # `raise exc` of a caught exception
            else:
                found_, cur_ = env.lookup('__handling__')
                if found_ and cur_:
                    name = cur_  # bare raise inside a handler
            raise Raised(name, st)
        elif isinstance(st, ast.Assert):
            try:
                ok = self.truth(self.eval(st.test, env))
            except Undecided:
                ok = True
            if not ok:
                raise Raised('AssertionError', st)
        elif isinstance(st, ast.FunctionDef):
            env.vars[st.name] = Func(st, env, None, env.lookup('__class_of_function__')[1])
        elif isinstance(st, (ast.Pass, ast.Import, ast.ImportFrom, ast.Global, ast.Nonlocal, ast.Delete)):
            if isinstance(st, (ast.Import, ast.ImportFrom)):
                for al in st.names:
                    if (al.asname or al.name).split('.')[0] in env.module.imports:
                        continue  # the loader recorded it (relative imports resolved): name() finds it
                    base = al.name if isinstance(st, ast.Import) else f'{st.module}.{al.name}'
                    env.vars[(al.asname or al.name).split('.')[0]] = Ref(base if al.asname or isinstance(st, ast.ImportFrom) else al.name.split('.')[0])
        elif isinstance(st, ast.Break):
            raise _Break()
        elif isinstance(st, ast.Continue):
            raise _Continue()
        elif isinstance(st, ast.Try):
            try:
                self.exec_block(st.body, env)
            except Raised as e:
                for h in st.handlers:
                    names = []
                    if h.type is not None:
                        names = [(dotted(x) or '').split('.')[-1] for x in (h.type.elts if isinstance(h.type, ast.Tuple) else [h.type])]
                    if h.type is None or e.name in names or 'Exception' in names or 'BaseException' in names:
                        if h.name:
                            env.vars[h.name] = 'exception:' + e.name
                        prev_ = env.vars.get('__handling__')
                        env.vars['__handling__'] = e.name
                        try:
                            self.exec_block(h.body, env)
                        finally:
                            env.vars['__handling__'] = prev_
                        break
                else:
                    raise
            else:
                self.exec_block(st.orelse, env)
            finally:
                self.exec_block(st.finalbody, env)
        else:
            raise Undecided(f'statement {type(st).__name__}')

    # ------------------------------------------------------------------ expressions
    def eval(self, e: ast.AST, env: Env) -> Any:
        self._tick()
        m = getattr(self, '_e_' + type(e).__name__, None)
        if m is None:
            raise Undecided(f'expression {type(e).__name__}')
        try:
            return m(e, env)
        except (Raised, Undecided, _Return, _Break, _Continue):
            raise
        except RecursionError:
            raise Undecided('recursion')
        except (TypeError, AttributeError) as exc:
            raise Undecided(f'{type(exc).__name__} in the abstract evaluation of {ast.unparse(e)[:60]}')
        except ValueError:
            raise Raised('ValueError', e)
        except (IndexError, KeyError, ZeroDivisionError, StopIteration) as exc:
            raise Raised(type(exc).__name__, e)

    def _e_Constant(self, e, env):
        return e.value

    def _e_Name(self, e, env):
        return self.name(e.id, env, e)

    def _e_Attribute(self, e, env):
        if isinstance(e.value, ast.Call) and isinstance(e.value.func, ast.Name) and e.value.func.id == 'super':
            found, selfv = env.lookup(_first_param(env))
            cls = env.lookup('__class_of_function__')[1]
            if isinstance(selfv, Obj) and cls is not None:
                mro = selfv.cls.mro
                rest = mro[mro.index(cls) + 1:] if cls in mro else []
                for k in rest:
                    if e.attr in k.own and isinstance(k.own[e.attr], ast.FunctionDef):
                        return Func(k.own[e.attr], Env(module_of(k.own[e.attr])), selfv, k)
                return UNK
            return UNK
        return self.get_attr(self.eval(e.value, env), e.attr, e)

    def _e_Tuple(self, e, env):
        return tuple(self._elts(e.elts, env))

    def _e_List(self, e, env):
        return list(self._elts(e.elts, env))

    def _e_Set(self, e, env):
        return set(self._elts(e.elts, env))

    def _elts(self, elts, env):
        out = []
        for x in elts:
            if isinstance(x, ast.Starred):
                v = self.eval(x.value, env)
                if v is UNK or not isinstance(v, (tuple, list, range, set, frozenset, dict)):
                    raise Undecided('star of an abstract value')
                out.extend(v)
            else:
                out.append(self.eval(x, env))
        return out

    def _e_Dict(self, e, env):
        out = {}
        for k, v in zip(e.keys, e.values):
            if k is None:
                d = self.eval(v, env)
                if not isinstance(d, dict):
                    raise Undecided('dict star')
                out.update(d)
            else:
                out[self.eval(k, env)] = self.eval(v, env)
        return out

    def _e_JoinedStr(self, e, env):
        out = []
        for v in e.values:
            if isinstance(v, ast.Constant):
                out.append(str(v.value))
            elif isinstance(v, ast.FormattedValue):
                x = self.eval(v.value, env)
                if isinstance(x, Obj) and v.format_spec is None and v.conversion == -1:
                    r_ = self.table.resolve(x.cls, '__str__')
                    if r_ is not None and isinstance(r_.node, ast.FunctionDef):
                        x = self.call(Func(r_.node, Env(module_of(r_.node)), x, r_.found_on), [], {}, None)
                if not _concrete(x) or v.format_spec is not None:
                    return '<text>'
                out.append(repr(x) if v.conversion == ord('r') else str(x))
        return ''.join(out)

    def _e_Slice(self, e, env):
        return slice(*(self.eval(x, env) if x is not None else None for x in (e.lower, e.upper, e.step)))

    def _e_Starred(self, e, env):
        raise Undecided('star')

    def _e_Yield(self, e, env):
        found, ys = env.lookup('__yielded__')
        if not found:
            raise Undecided('yield outside a generator')
        ys.append(self.eval(e.value, env) if e.value is not None else None)
        return None

    def _e_YieldFrom(self, e, env):
        found, ys = env.lookup('__yielded__')
        if not found:
            raise Undecided('yield outside a generator')
        ys.extend(self.iterate(self.eval(e.value, env)))
        return None

    def _e_NamedExpr(self, e, env):
        v = self.eval(e.value, env)
        self.assign(e.target, v, env)
        return v

    def _e_Lambda(self, e, env):
        return Func(e, env, None, env.lookup('__class_of_function__')[1])

    def _e_IfExp(self, e, env):
        return self.eval(e.body if self.truth(self.eval(e.test, env)) else e.orelse, env)

    def _e_BoolOp(self, e, env):
        v = None
        for i_, x in enumerate(e.values):
            v = self.eval(x, env)
            if i_ == len(e.values) - 1:
                return v  # the last operand is the result whatever its truth value
            t = self.truth(v)
            if isinstance(e.op, ast.And) and not t:
                return v
            if isinstance(e.op, ast.Or) and t:
                return v
        return v

    def _e_UnaryOp(self, e, env):
        v = self.eval(e.operand, env)
        if isinstance(e.op, ast.Not):
            return not self.truth(v)
        if v is UNK:
            return UNK
        if isinstance(v, AxArr):
            return v
        if self.symbolic and isinstance(v, (Opaque, Sym)):
            return Sym({ast.USub: 'neg', ast.UAdd: 'pos', ast.Invert: '~'}[type(e.op)], (v,))
        if isinstance(v, Obj) and isinstance(e.op, (ast.USub, ast.UAdd)):
            r_ = self.table.resolve(v.cls, '__neg__' if isinstance(e.op, ast.USub) else '__pos__')
            if r_ is not None and isinstance(r_.node, ast.FunctionDef):
                return self.call(Func(r_.node, Env(module_of(r_.node)), v, r_.found_on), [], {}, None)
            return UNK
        if isinstance(e.op, ast.USub):
            return -v
        if isinstance(e.op, ast.UAdd):
            return +v
        if isinstance(e.op, ast.Invert):
            return ~v
        raise Undecided('unary operator')

    _DUNDERS = {ast.Add: 'add', ast.Sub: 'sub', ast.Mult: 'mul', ast.MatMult: 'matmul', ast.Div: 'truediv', ast.FloorDiv: 'floordiv', ast.Mod: 'mod', ast.Pow: 'pow', ast.BitAnd: 'and', ast.BitOr: 'or'}

    def _object_binop(self, op: type, a: Any, b: Any) -> Any:
        """Python's binary operator protocol when an operand is an object of an analysed class."""
        name = self._DUNDERS.get(op)
        if name is None:
            return UNK
        # (Python tries the reflected method first when the right operand's class is a strict subclass of the left one's and overrides it)
        tries = [(a, f'__{name}__', b), (b, f'__r{name}__', a)]
        if isinstance(a, Obj) and isinstance(b, Obj) and b.cls is not a.cls and self.table.is_subclass(b.cls, a.cls):
            ra, rb = self.table.resolve(a.cls, f'__r{name}__'), self.table.resolve(b.cls, f'__r{name}__')
            if rb is not None and (ra is None or rb.node is not ra.node):
                tries.reverse()
        for recv, meth, other in tries:
            if not isinstance(recv, Obj):
                continue
            r = self.table.resolve(recv.cls, meth)
            if r is None or not isinstance(r.node, ast.FunctionDef):
                continue
            res = self.call(self.method_func(r.node, Env(module_of(r.node)), recv, r.found_on), [other], {}, None)
            if res is not NotImplemented:
                return res
        raise Raised('TypeError')

    def _e_BinOp(self, e, env):
        a, b = self.eval(e.left, env), self.eval(e.right, env)
        if a is UNK or b is UNK:
            return UNK
        if (isinstance(a, Obj) and '__record_fields__' not in a.attrs) or (isinstance(b, Obj) and '__record_fields__' not in b.attrs):
            return self._object_binop(type(e.op), a, b)
        if self.symbolic and (isinstance(a, (Opaque, Sym)) or isinstance(b, (Opaque, Sym))):
            names = {ast.Add: '+', ast.Sub: '-', ast.Mult: '*', ast.BitAnd: '&', ast.BitOr: '|', ast.FloorDiv: '//', ast.Mod: '%', ast.Div: '/', ast.Pow: '**', ast.MatMult: '@'}
            if type(e.op) in names:
                return Sym(names[type(e.op)], (a, b))
            return UNK
        if isinstance(a, AxArr) or isinstance(b, AxArr):
            if isinstance(e.op, ast.MatMult):
                return UNK
            arrs = [x for x in (a, b) if isinstance(x, AxArr)]
            if len(arrs) == 1 and not isinstance(a if arrs[0] is b else b, (int, float, complex)):
                return UNK
            return broadcast(arrs)
        if not (_concrete(a) and _concrete(b)):
            if isinstance(e.op, ast.BitOr) and isinstance(a, dict) and isinstance(b, dict):
                return {**a, **b}
            if isinstance(e.op, ast.Add) and isinstance(a, (tuple, list)) and isinstance(b, type(a)):
                return a + b
            if isinstance(e.op, ast.Mult) and ((isinstance(a, (tuple, list)) and isinstance(b, int)) or (isinstance(b, (tuple, list)) and isinstance(a, int))):
                return a * b
            return UNK
        import operator as op

        table = {ast.Add: op.add, ast.Sub: op.sub, ast.Mult: op.mul, ast.FloorDiv: op.floordiv, ast.Mod: op.mod, ast.Div: op.truediv, ast.Pow: op.pow,
                 ast.BitAnd: op.and_, ast.BitOr: op.or_, ast.BitXor: op.xor, ast.LShift: op.lshift, ast.RShift: op.rshift}
        f = table.get(type(e.op))
        if f is None:
            raise Undecided('binary operator')
        return f(a, b)

    def _e_Compare(self, e, env):
        left = self.eval(e.left, env)
        if self.symbolic:
            vals = [left] + [self.eval(c, env) for c in e.comparators]
            if any(isinstance(v, (Opaque, Sym)) for v in vals) and not any(v is UNK for v in vals):
                names = {ast.Lt: '<', ast.LtE: '<=', ast.Gt: '>', ast.GtE: '>=', ast.Eq: '==', ast.NotEq: '!='}
                if all(type(o) in names for o in e.ops):
                    parts = [Sym(names[type(o)], (x, y)) for o, x, y in zip(e.ops, vals, vals[1:])]
                    out = parts[0]
                    for p_ in parts[1:]:
                        out = Sym('&', (out, p_))
                    return out
                return UNK
            # (the comparators were evaluated once already: evaluation is pure)
        result: Any = True
        for o, r in zip(e.ops, e.comparators):
            right = self.eval(r, env)
            if isinstance(o, (ast.Is, ast.IsNot)):
                if left is UNK or right is UNK:
                    v: Any = UNK
                elif isinstance(left, ClassRef) and isinstance(right, ClassRef):
                    v = (left.cls is right.cls) == isinstance(o, ast.Is)  # one class, however many references to it
                else:
                    v = (left is right) if isinstance(o, ast.Is) else (left is not right)
            elif left is UNK or right is UNK:
                v = UNK
            elif (isinstance(left, StructLeaf) or isinstance(right, StructLeaf)) and isinstance(o, (ast.Eq, ast.NotEq)):
                v = (left == right) if isinstance(o, ast.Eq) else (left != right)
            elif isinstance(o, (ast.Eq, ast.NotEq)) and any(isinstance(x, AxArr) for x in (left, right)) and any(isinstance(x, slice) or x is Ellipsis or x is None for x in (left, right)):
                v = isinstance(o, ast.NotEq)  # an array defers the comparison with a slice / ellipsis / None: Python falls back to identity
            elif isinstance(left, AxArr) or isinstance(right, AxArr):
                arrs = [x for x in (left, right) if isinstance(x, AxArr)]
                return broadcast(arrs)
            elif isinstance(o, (ast.In, ast.NotIn)):
                if not _concrete(left) and not isinstance(right, (tuple, list, dict, set, frozenset)):
                    v = UNK
                else:
                    v = (left in right) if isinstance(o, ast.In) else (left not in right)
            else:
                import operator as op

                f = {ast.Eq: op.eq, ast.NotEq: op.ne, ast.Lt: op.lt, ast.LtE: op.le, ast.Gt: op.gt, ast.GtE: op.ge}[type(o)]
                if _has_unk(left) or _has_unk(right):
                    v = UNK
                else:
                    v = f(left, right)
            if v is UNK:
                return UNK
            if not v:
                return False
            left = right
        return result

    def _e_Subscript(self, e, env):
        v = self.eval(e.value, env)
        k = self.eval(e.slice, env)
        if v is UNK:
            return UNK
        if isinstance(v, AxArr):
            return index(v, k)
        if isinstance(v, Obj) and '__record_fields__' in v.attrs and isinstance(k, (int, slice)):
            return self.iterate(v)[k]
        if isinstance(v, dict) and _keyable(k):
            try:
                return v[k]
            except KeyError:
                raise Raised('KeyError', e)
        if isinstance(v, (tuple, list, dict, str, range, Counter)):
            if not _concrete(k):
                raise Undecided('abstract subscript')
            return v[k]
        if isinstance(v, Ref) and v.path.split('.')[-1] == 'Literal' and _concrete(k):
            st_ = PyStub()
            st_.literal_args = k if isinstance(k, tuple) else (k,)
            return st_
        if isinstance(v, Ref):
            return v  # a parametrised type
        return UNK

    def _e_Call(self, e, env):
        if isinstance(e.func, ast.Name) and e.func.id == 'super':
            return UNK
        f = self.eval(e.func, env)
        args = self._elts(e.args, env)
        kwargs = {}
        for k in e.keywords:
            if k.arg is None:
                d = self.eval(k.value, env)
                if not isinstance(d, dict):
                    raise Undecided('** of an abstract value')
                kwargs.update(d)
            else:
                kwargs[k.arg] = self.eval(k.value, env)
        if isinstance(f, Ref) and f.path == 'builtins.object.__new__' and len(args) == 1 and isinstance(args[0], ClassRef):
            return Obj(args[0].cls, {})
        if isinstance(f, Ref) and f.path.startswith('builtins.'):
            n = f.path[9:]
            if n in _TYPE_NAMES and all(_concrete(a) or isinstance(a, (tuple, list)) for a in args):
                return _TYPE_NAMES[n](*args)
            return UNK
        return self.call(f, args, kwargs, e)

    def _comp(self, e, env, collect):
        def rec(i: int, env_: Env) -> None:
            if i == len(e.generators):
                collect(env_)
                return
            g = e.generators[i]
            for v in self.iterate(self.eval(g.iter, env_)):
                inner = Env(env_.module, env_)
                self.assign(g.target, v, inner)
                if all(self.truth(self.eval(c, inner)) for c in g.ifs):
                    rec(i + 1, inner)

        rec(0, env)

    def _e_ListComp(self, e, env):
        out: list = []
        self._comp(e, env, lambda en: out.append(self.eval(e.elt, en)))
        return out

    _e_GeneratorExp = _e_ListComp

    def _e_SetComp(self, e, env):
        out: list = []
        self._comp(e, env, lambda en: out.append(self.eval(e.elt, en)))
        return set(out)

    def _e_DictComp(self, e, env):
        out: dict = {}
        self._comp(e, env, lambda en: out.__setitem__(self.eval(e.key, en), self.eval(e.value, en)))
        return out


def _is_generator(fn: ast.AST) -> bool:
    if not isinstance(fn, ast.FunctionDef):
        return False
    todo = list(fn.body)
    while todo:
        n = todo.pop()
        if isinstance(n, (ast.Yield, ast.YieldFrom)):
            return True
        if isinstance(n, (ast.FunctionDef, ast.Lambda, ast.ClassDef)):
            continue
        todo.extend(ast.iter_child_nodes(n))
    return False


class TreeDef(PyStub):
    """Structure of a pytree made of Python containers (tuple / list / dict) around abstract leaves."""

    def __init__(self, shape: Any, n: int):
        self.shape = shape
        self.num_leaves = n

    def unflatten(self, leaves: Any) -> Any:
        leaves = list(leaves)
        if len(leaves) != self.num_leaves:
            raise Raised('ValueError')
        return _tree_unflatten(self.shape, leaves)

    def __eq__(self, other: Any) -> bool:
        return isinstance(other, TreeDef) and other.shape == self.shape

    def __hash__(self) -> int:
        return hash(repr(self.shape))


def _tree_flatten(t: Any, is_leaf: Any, interp: 'Interp') -> tuple[list, Any] | None:
    """(leaves, shape) where shape is a nested description; None if the tree holds something unmodelled."""
    if is_leaf is not None:
        try:
            if interp.truth(interp.call(is_leaf, [t], {}, None)):
                return [t], '*'
        except Undecided:
            return None
    if t is None:
        return [], None
    if isinstance(t, Obj) and '__record_fields__' in t.attrs:
        return None
    if isinstance(t, (Opaque, Sym, AxArr, Promoted, int, float, complex, bool)) or isinstance(t, Obj):
        return [t], '*'
    if isinstance(t, (tuple, list)):
        leaves, shapes = [], []
        for x in t:
            f = _tree_flatten(x, is_leaf, interp)
            if f is None:
                return None
            leaves += f[0]
            shapes.append(f[1])
        return leaves, (type(t).__name__, tuple(shapes))
    if isinstance(t, dict):
        leaves, shapes = [], []
        for k in sorted(t, key=str):
            f = _tree_flatten(t[k], is_leaf, interp)
            if f is None:
                return None
            leaves += f[0]
            shapes.append((k, f[1]))
        return leaves, ('dict', tuple(shapes))
    return None


def _tree_unflatten(shape: Any, leaves: list) -> Any:
    it = iter(leaves)

    def build(s):
        if s == '*':
            return next(it)
        if s is None:
            return None
        kind, parts = s
        if kind == 'dict':
            return {k: build(v) for k, v in parts}
        seq = [build(x) for x in parts]
        return tuple(seq) if kind == 'tuple' else seq

    return build(shape)


def _as_load(t: ast.AST) -> ast.AST:
    import copy

    n = copy.copy(t)
    if hasattr(n, 'ctx'):
        n.ctx = ast.Load()
    return n


def _first_param(env: Env) -> str:
    e: Env | None = env
    while e is not None:
        if 'self' in e.vars:
            return 'self'
        e = e.parent
    return 'self'

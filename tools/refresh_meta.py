#!/venv/bin/python
"""Recompute caught_by / expected_rules of every /verif/seeded/<id>/meta.json against the current checks (parallel)."""
import glob, json, multiprocessing as mp, os, sys
sys.path.insert(0, '/verif')
from sa.history import world_with_patch
from sa.loader import World
from sa.run import ALL_IDS, run_property

BASE = {}


def one(meta_path):
    d = os.path.dirname(meta_path)
    world = world_with_patch('/repo', f'{d}/patch.diff')
    caught, rules, undecided = [], {}, []
    for pid in ALL_IDS:
        try:
            ck = run_property(pid, world)
        except Exception as exc:  # noqa: BLE001
            undecided.append(pid)
            continue
        new = sorted({o.key for o in ck.violations()} - BASE[pid])
        if new:
            caught.append(pid)
            rules[pid] = sorted({k.split(' ')[0] for k in new})
        elif ck.incompletes() or ck.floor_failures():
            undecided.append(pid)
    return meta_path, caught, rules, undecided


if __name__ == '__main__':
    clean = World('/repo')
    for pid in ALL_IDS:
        BASE[pid] = {o.key for o in run_property(pid, clean).violations()}
    metas = sorted(glob.glob('/verif/seeded/*/meta.json'))
    with mp.get_context('fork').Pool(14) as pool:
        for meta_path, caught, rules, undecided in pool.imap(one, metas):
            meta = json.load(open(meta_path))
            old = (meta.get('caught_by'), meta.get('expected_rules'))
            meta['caught_by'], meta['expected_rules'] = caught, rules
            meta['undecided_by'] = undecided
            json.dump(meta, open(meta_path, 'w'), indent=1)
            own = meta['property'] in caught
            print(os.path.basename(os.path.dirname(meta_path)), 'own' if own else 'NOT-OWN', caught, '(changed)' if old != (caught, rules) else '')

#!/venv/bin/python
"""Recompute caught_by / expected_rules of every /verif/seeded/<id>/meta.json against the current checks."""
import glob, json, os, sys
sys.path.insert(0, '/verif')
from sa.history import world_with_patch
from sa.loader import World
from sa.run import ALL_IDS, run_property

clean = World('/repo')
base = {pid: {o.key for o in run_property(pid, clean).violations()} for pid in ALL_IDS}
for meta_path in sorted(glob.glob('/verif/seeded/*/meta.json')):
    d = os.path.dirname(meta_path)
    meta = json.load(open(meta_path))
    world = world_with_patch('/repo', f'{d}/patch.diff')
    caught, rules = [], {}
    for pid in ALL_IDS:
        try:
            ck = run_property(pid, world)
        except Exception as exc:  # noqa: BLE001
            print(f'{os.path.basename(d)}: {pid} crashed: {exc}')
            continue
        new = sorted({o.key for o in ck.violations()} - base[pid])
        if new:
            caught.append(pid)
            rules[pid] = sorted({k.split(' ')[0] for k in new})
    old = (meta.get('caught_by'), meta.get('expected_rules'))
    meta['caught_by'], meta['expected_rules'] = caught, rules
    json.dump(meta, open(meta_path, 'w'), indent=1)
    own = meta['property'] in caught
    print(os.path.basename(d), 'own' if own else 'NOT-OWN', caught, '(changed)' if old != (caught, rules) else '')

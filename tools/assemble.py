#!/venv/bin/python
"""Assemble /verif/seeded/<id>/ from verified seeds."""
import json, os, re, shutil, subprocess, sys
sys.path.insert(0, '/verif')
from sa.history import world_with_patch
from sa.loader import World
from sa.run import ALL_IDS, run_property

ROOT = os.environ.get('ROOT', '/tmp/wt')
# round 2 seeds are stored as <prop>-c / <prop>-d next to the round 1 seeds -a / -b
RENAME = {'a': 'c', 'b': 'd'} if os.environ.get('ROUND') == '2' else {'a': 'e', 'b': 'f'} if os.environ.get('ROUND') == '5' else {}
NOCHECK = bool(os.environ.get('NOCHECK'))  # metas are filled by tools/refresh_meta.py afterwards
clean = World('/repo')
base = {} if NOCHECK else {pid: {o.key for o in run_property(pid, clean).violations()} for pid in ALL_IDS}
head = subprocess.run(['git','-C','/repo','rev-parse','--short','HEAD'],capture_output=True,text=True).stdout.strip()
rows = []
for txt in sorted(os.listdir(f'{ROOT}/verified')):
    if not txt.endswith('.txt'): continue
    sid = txt[:-4]
    info = open(f'{ROOT}/verified/{txt}').read()
    prop, var = sid.split('-')
    src = f'{ROOT}/out/{prop}/{var}'
    vsid = sid
    sid = f'{prop}-{RENAME.get(var, var)}'
    ok = 'clean_demo_exit=0' in info and 'apply=ok' in info and re.search(r'patched_demo_exit=[1-9]', info) and 'SUITE-OK' in info
    if not ok:
        rows.append((sid, 'NOT-CONFIRMED', info.replace('\n',' ')[:120])); continue
    dst = f'/verif/seeded/{sid}'
    os.makedirs(dst, exist_ok=True)
    shutil.copy(f'{ROOT}/verified/{vsid}.rebased.diff', f'{dst}/patch.diff')
    shutil.copy(f'{src}/demo.py', f'{dst}/demo.py')
    if os.path.exists(f'{src}/notes.md'): shutil.copy(f'{src}/notes.md', f'{dst}/notes.md')
    world = None if NOCHECK else world_with_patch('/repo', f'{dst}/patch.diff')
    caught, rules = [], {}
    for pid in ([] if NOCHECK else ALL_IDS):
        ck = run_property(pid, world)
        new = sorted({o.key for o in ck.violations()} - base[pid])
        if new:
            caught.append(pid); rules[pid] = sorted({k.split(' ')[0] for k in new})
    notes = open(f'{src}/notes.md').read() if os.path.exists(f'{src}/notes.md') else ''
    m = re.search(r'(?im)^[-*\s]*(needed to manifest|what triggers it|trigger|needs?)[^:]*:\s*(.+)$', notes)
    meta = {
        'id': sid, 'property': prop,
        'breaks': f'{prop} (see notes.md)',
        'needs_to_manifest': (m.group(2).strip() if m else 'see notes.md')[:400],
        'origin': 'written by an independent sub-agent that saw only the property text and a scratch worktree (nothing from /verif)',
        'confirmed': {
            'repo_head': head,
            'demo_on_clean_tree': 'exit 0 (PASS)',
            'demo_on_patched_tree': re.search(r'patched_demo_exit=\d+', info).group(0).replace('patched_demo_exit=', 'exit ') + ' (FAIL)',
            'suite_on_patched_tree': 'SUITE-OK: all 1039 baseline-stable tests pass',
            'how': 'scratch worktree of /repo under /tmp: cp demo.py; run demo (clean); patch -p1 < patch.diff; run demo; tools/suite.py (pytest -n 6, compared with BASELINE.json stable_pass); git checkout -- .',
        },
        'caught_by': caught, 'expected_rules': rules,
    }
    json.dump(meta, open(f'{dst}/meta.json','w'), indent=1)
    rows.append((sid, 'CAUGHT by ' + ','.join(f'{p}:{"/".join(r.split(".")[1] for r in rules[p])}' for p in caught) if caught else 'MISSED', ''))
for r in rows: print(*r)

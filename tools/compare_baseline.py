import json, sys, xml.etree.ElementTree as ET
base = json.load(open('/root/.vp/BASELINE.json'))
stable = set(base['stable_pass'])
t = ET.parse(sys.argv[1])
res = {}
for tc in t.iter('testcase'):
    name = tc.get('classname') + '::' + tc.get('name')
    bad = any(c.tag in ('failure','error') for c in tc)
    skip = any(c.tag == 'skipped' for c in tc)
    res[name] = 'fail' if bad else ('skip' if skip else 'pass')
missing = [n for n in stable if res.get(n) != 'pass']
print('stable', len(stable), 'now-pass', sum(1 for v in res.values() if v=='pass'), 'fail', sum(1 for v in res.values() if v=='fail'))
print('stable tests not passing:', len(missing))
for m in missing[:20]: print('  ', m, res.get(m))

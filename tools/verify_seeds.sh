#!/bin/bash
# usage: [ROOT=/tmp/wt2] verify_seeds.sh <worktree-name> <seed-dir>...   (seed-dir like $ROOT/out/C01/a)
ROOT=${ROOT:-/tmp/wt}
WT=$ROOT/$1; shift
if [ ! -d $WT ]; then git -C /repo worktree add --detach $WT HEAD -q; fi
for d in "$@"; do
  id=$(basename $(dirname $d))-$(basename $d)
  out=$ROOT/verified/$id.txt
  mkdir -p $ROOT/verified
  cd $WT && git checkout -q -- . && git clean -fdq
  echo "== $id" > $out
  # clean demo
  (cd $WT && cp $d/demo.py demo_seed.py && PYTHONPATH=$WT/src timeout 900 /venv/bin/python demo_seed.py > $ROOT/verified/$id.clean.log 2>&1; echo "clean_demo_exit=$?" >> $out)
  if ! (cd $WT && patch -p1 --fuzz=3 --no-backup-if-mismatch -s -i $d/patch.diff >> $out 2>&1); then echo "apply=FAILED" >> $out; continue; fi
  echo "apply=ok" >> $out
  (cd $WT && PYTHONPATH=$WT/src timeout 900 /venv/bin/python demo_seed.py > $ROOT/verified/$id.patched.log 2>&1; echo "patched_demo_exit=$?" >> $out)
  (cd $WT && rm -f demo_seed.py && $ROOT/tools/suite.py $WT > $ROOT/verified/$id.suite.log 2>&1; tail -1 $ROOT/verified/$id.suite.log | cut -c1-60 >> $out)
  (cd $WT && git diff > $ROOT/verified/$id.rebased.diff; git checkout -q -- . ; git clean -fdq)
done
git -C /repo worktree remove --force $WT

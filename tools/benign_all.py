import sys; sys.path.insert(0,'/verif')
from sa.loader import World
from sa.benign import VARIANTS
from sa.run import ALL_IDS, run_property
w = World('/repo')
base = {}
for pid in ALL_IDS:
    ck = run_property(pid, w); base[pid] = ({o.key for o in ck.violations()}, {o.key for o in ck.incompletes()})
names = sys.argv[1:] or list(VARIANTS)
for name in names:
    v = VARIANTS[name](w)
    print('==', name)
    for pid in ALL_IDS:
        try:
            ck = run_property(pid, v)
        except Exception as e:
            print('  ', pid, 'CRASH', type(e).__name__, str(e)[:150]); continue
        nv = sorted({o.key for o in ck.violations()} - base[pid][0]); ni = sorted({o.key for o in ck.incompletes()} - base[pid][1]); fl = ck.floor_failures()
        if nv or ni or fl:
            print('  ', pid, 'viol', len(nv), 'inc', len(ni), 'floors', len(fl))
            for k in (nv+ni)[:6]: print('       ', k[:150])
            for k in fl[:3]: print('        FLOOR', k)

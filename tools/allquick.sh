#!/bin/bash
# runs the 20 quick checks in parallel on /repo and prints whatever is not a clean pass
cd /verif
for i in $(seq -w 1 20); do (./check C$i > /tmp/allquick_C$i.txt 2>&1; echo "C$i exit=$?" >> /tmp/allquick_C$i.txt) & done; wait
for i in $(seq -w 1 20); do grep -E "VIOLATION|ANALYSIS|INCOMPLETE|exit=[12]" /tmp/allquick_C$i.txt | cut -c1-220; done
echo "allquick done"

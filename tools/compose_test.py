#!/venv/bin/python
"""Seeded defect + behaviour-preserving refactor applied together: the defect must still be reported by the check of its
own property (the normaliser and the canonical forms must not hide what they fold away).

usage: compose_test.py [refactor-dir ...]   (default: /verif/refactors/*)"""
import glob, json, multiprocessing as mp, os, re, shutil, subprocess, sys, tempfile
sys.path.insert(0, '/verif')
from sa.loader import World
from sa.run import run_property

BASE = {}


def files_of(patch):
    return set(re.findall(r'^\+\+\+ b/(\S+)', open(patch).read(), re.M))


def job(args):
    seed_dir, ref_patch = args
    meta = json.load(open(f'{seed_dir}/meta.json'))
    pid = meta['property']
    tmp = tempfile.mkdtemp(prefix='compose_')
    try:
        shutil.copytree('/repo/src', f'{tmp}/src')
        for patch in (ref_patch, f'{seed_dir}/patch.diff'):
            r = subprocess.run(['patch', '-p1', '--fuzz=2', '--no-backup-if-mismatch', '-s', '-i', patch], cwd=tmp, capture_output=True, text=True)
            if r.returncode != 0:
                return (seed_dir, ref_patch, 'conflict', [])
        # must still be valid python
        for f in files_of(ref_patch) | files_of(f'{seed_dir}/patch.diff'):
            try:
                compile(open(f'{tmp}/{f}').read(), f, 'exec')
            except SyntaxError:
                return (seed_dir, ref_patch, 'conflict', [])
        w = World(tmp)
        ck = run_property(pid, w)
        new = sorted({o.key for o in ck.violations()} - BASE[pid])
        inc = sorted(o.key for o in ck.incompletes())
        return (seed_dir, ref_patch, 'caught' if new else ('undecided' if inc or ck.floor_failures() else 'MISSED'), new[:2])
    finally:
        shutil.rmtree(tmp, ignore_errors=True)


if __name__ == '__main__':
    refs = sys.argv[1:] or sorted(glob.glob('/verif/refactors/*'))
    ref_patches = [f'{r}/patch.diff' for r in refs if os.path.exists(f'{r}/patch.diff')]
    seeds = [os.path.dirname(m) for m in sorted(glob.glob('/verif/seeded/*/meta.json')) if json.load(open(m)).get('caught_by')]
    clean = World('/repo')
    for pid in {json.load(open(f'{s}/meta.json'))['property'] for s in seeds}:
        BASE[pid] = {o.key for o in run_property(pid, clean).violations()}
    pairs = []
    for s in seeds:
        sf = files_of(f'{s}/patch.diff')
        for rp in ref_patches:
            if sf & files_of(rp):
                pairs.append((s, rp))
    print(len(pairs), 'pairs')
    stats = {}
    with mp.get_context('fork').Pool(14) as pool:
        for seed_dir, rp, status, new in pool.imap_unordered(job, pairs):
            stats[status] = stats.get(status, 0) + 1
            if status in ('MISSED', 'undecided'):
                print(status, os.path.basename(seed_dir), os.path.basename(os.path.dirname(rp)), new)
    print(stats)

#!/venv/bin/python
"""Usage: suite.py <worktree>   -- runs the furax test suite inside <worktree> against <worktree>/src
and tells whether every test of the reference 'stable pass' set still passes."""
import json, os, subprocess, sys, tempfile, xml.etree.ElementTree as ET
wt = os.path.abspath(sys.argv[1])
stable = set(json.load(open('/root/.vp/BASELINE.json'))['stable_pass'])
out = tempfile.mktemp(suffix='.xml', dir=wt)
env = dict(os.environ, PYTHONPATH=os.path.join(wt, 'src'))
p = subprocess.run(['/venv/bin/python', '-m', 'pytest', '-q', '-p', 'no:cacheprovider', '--timeout=900',
                    '--continue-on-collection-errors', '-n', '6', f'--junitxml={out}'], cwd=wt, env=env,
                   stdout=subprocess.PIPE, stderr=subprocess.STDOUT, text=True)
print(p.stdout.strip().splitlines()[-1])
res = {}
for tc in ET.parse(out).iter('testcase'):
    name = tc.get('classname') + '::' + tc.get('name')
    bad = any(c.tag in ('failure', 'error') for c in tc)
    skip = any(c.tag == 'skipped' for c in tc)
    res[name] = 'fail' if bad else ('skip' if skip else 'pass')
os.remove(out)
broken = sorted(n for n in stable if res.get(n) != 'pass')
if broken:
    print(f'SUITE-BROKEN: {len(broken)} baseline-stable tests no longer pass:')
    for n in broken[:30]: print('   ', n, res.get(n))
    sys.exit(1)
print(f'SUITE-OK: all {len(stable)} baseline-stable tests still pass (other pre-existing failures are environment-related and ignored)')

#!/venv/bin/python
"""Merge a *restricted* sweep (`python -m sa.seedrun --pids ... seeded|refactors`) into seeded/*/meta.json and
refactors/expected.json: only the listed properties are replaced, everything else is kept.

usage: merge_partial_sweep.py <pids,comma> <seed sweep output> <refactor sweep output> [<full-sweep outputs for new ids>...]
The optional extra files are full sweeps (all properties) of ids that have no entry yet; they are read first."""
import json, os, re, sys

pids = sys.argv[1].split(',')
seed_out, ref_out, extra = sys.argv[2], sys.argv[3], sys.argv[4:]


def blocks(path):
    txt = open(path).read()
    out = {}
    for block in re.split(r'\n(?=\S)', txt):
        m = re.match(r'\S*?(C\d\d-\w)/patch.diff: (\w+)', block)
        if not m:
            continue
        caught: dict = {}
        for pid, rule in re.findall(r'^     (C\d\d): (C\d\d\.[\w-]+) ', block, re.M):
            caught.setdefault(pid, set()).add(rule)
        und = set(re.findall(r'^     ~ (C\d\d): ', block, re.M))
        out[m.group(1)] = (caught, und)
    return out


full = {}
for f in extra:
    full.update(blocks(f))
false_alarms = []
# ---- seeds
part = blocks(seed_out)
for sid, (caught, und) in sorted(part.items()):
    mp = f'/verif/seeded/{sid}/meta.json'
    meta = json.load(open(mp))
    rules = {p: list(r) for p, r in meta.get('expected_rules', {}).items()}
    undecided = set(meta.get('undecided_by', []))
    if sid in full and not meta.get('caught_by') and not undecided:
        rules = {p: sorted(r) for p, r in full[sid][0].items()}
        undecided = set(full[sid][1])
    for p in pids:
        rules.pop(p, None)
        undecided.discard(p)
        if p in caught:
            rules[p] = sorted(caught[p])
        elif p in und:
            undecided.add(p)
    old = (meta.get('caught_by'), meta.get('expected_rules'), sorted(meta.get('undecided_by', [])))
    meta['caught_by'] = sorted(rules)
    meta['expected_rules'] = {p: rules[p] for p in sorted(rules)}
    meta['undecided_by'] = sorted(undecided - set(rules))
    if old != (meta['caught_by'], meta['expected_rules'], meta['undecided_by']):
        print('seed', sid, 'changed:', old[0], '->', meta['caught_by'], 'undecided', meta['undecided_by'])
    json.dump(meta, open(mp, 'w'), indent=1)
# ---- refactors
ep = '/verif/refactors/expected.json'
expected = json.load(open(ep))
part = blocks(ref_out)
for rid, (caught, und) in sorted(part.items()):
    entry = dict(expected.get(rid, {}))
    if rid in full and rid not in expected:
        entry = {p: 'undecided' for p in full[rid][1]}
        for p in full[rid][0]:
            if p not in pids:
                false_alarms.append((rid, p, 'first run'))
    for p in pids:
        entry.pop(p, None)
        if p in caught:
            false_alarms.append((rid, p, sorted(caught[p])))
        elif p in und:
            entry[p] = 'undecided'
    if entry != expected.get(rid, {}):
        print('refactor', rid, 'changed:', expected.get(rid), '->', entry)
    if entry:
        expected[rid] = entry
    else:
        expected.pop(rid, None)
json.dump(expected, open(ep, 'w'), indent=1, sort_keys=True)
print('false alarms:', false_alarms)

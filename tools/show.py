#!/venv/bin/python
"""usage: tools/show.py <PID> <patch>  - runs one property on /repo + patch (in memory) and prints what is not discharged."""
import sys, os
sys.path.insert(0, os.path.dirname(os.path.dirname(os.path.abspath(__file__))))
from sa.history import world_with_patch
from sa.run import run_property
pid, patch = sys.argv[1], sys.argv[2]
w = world_with_patch('/repo', patch) if patch != '-' else __import__('sa.loader', fromlist=['World']).World('/repo')
ck = run_property(pid, w)
for o in ck.violations(): print('VIOLATION', o.rule, o.construct, '|', o.how[:int(os.environ.get('W', 400))])
for o in ck.incompletes(): print('INCOMPLETE', o.rule, o.construct, '|', o.how[:int(os.environ.get('W', 400))])
for f in ck.floor_failures(): print('FLOOR', f)
print(len(ck.obs), 'obligations')
if os.environ.get('NOTES'):
    for n in getattr(ck, 'notes', []): print('NOTE', n[:int(os.environ.get('W', 400))])
